"""C13 Flash encryption (OTFAD, IEE, BEE): range predicates, block loops on models, key-blob layouts, scramble switch."""
from __future__ import annotations

import ast
from typing import Any, Dict, List, Tuple

from ..core import astutil as A
from ..core.loader import AnalysisError
from ..core.report import norm
from ..engines import bytelayout, ordereval, wire
from ..engines.ordereval import Obj

OTFAD = "spsdk/utils/crypto/otfad.py"
IEE = "spsdk/utils/crypto/iee.py"
BEE = "spsdk/image/bee.py"


def rule_predicates(ctx) -> None:
    chk = ctx.chk
    for rp, cn in ((OTFAD, "KeyBlob"), (IEE, "IeeKeyBlob")):
        ca = ctx.own(rp, cn, "contains_addr")
        mr = ctx.own(rp, cn, "matches_range")
        cex = None
        n = 0
        for s in range(0, 4):
            for e in range(s, 5):
                for a in range(-1, 7):
                    out = ordereval.Evaluator({"self": Obj(start_addr=s, end_addr=e), "addr": a}, opaque_return=False).run(A.body_of(ca.node))
                    n += 1
                    if out.value != (s <= a <= e) and cex is None:
                        cex = (s, e, a, out.value)
        chk.exhaustive_rules.add("C13.range-predicates")
        chk.decide(cex is None, "C13.range-predicates", ca.qual, f"true exactly for start <= addr <= end ({n} order types)", f"start {cex[0]} end {cex[1]} addr {cex[2]}: {cex[3]}" if cex else "", "", A.loc(rp, ca.node))
        r = A.returns_in(mr.node)
        chk.decide(bool(r) and norm(r[-1].value) == "self.contains_addr(image_start) and self.contains_addr(image_end)", "C13.range-predicates", mr.qual, "both ends of the range lie inside the blob", norm(r[-1]) if r else "", "", A.loc(rp, mr.node))
    ir = ctx.own(BEE, "BeeProtectRegionBlock", "is_inside_region")
    cex = None
    for s in range(0, 3):
        for e in range(s, 5):
            for a in range(-1, 6):
                out = ordereval.Evaluator({"self": Obj(_start_addr=s, _end_addr=e), "start_addr": a}, opaque_return=False).run(A.body_of(ir.node))
                if out.value != (s <= a < e) and cex is None:
                    cex = (s, e, a, out.value)
    chk.decide(cex is None, "C13.range-predicates", ir.qual, "half-open: start <= addr < end", f"{cex}", "", A.loc(BEE, ir.node))
    # encrypt_block evaluated on models of a region block with two FAC regions (methods of the model objects are stepped into, so
    # helper methods on either class, early returns and loop shape do not matter)
    eb = ctx.own(BEE, "BeeProtectRegionBlock", "encrypt_block")
    blk_cls, fac_cls = ctx.cls(BEE, "BeeProtectRegionBlock"), ctx.cls(BEE, "BeeFacRegion")
    KEY = bytes(range(0x11, 0x21))

    def cv_bee(c: ast.Call, ev):
        if norm(c.func) == "align_block_fill_random" and c.args:
            al = A.arg_of(c, 1, "alignment")
            d = bytes(ev.ev(c.args[0]))
            return d + b"R" * ((-len(d)) % (ev.ev(al) if al is not None else 4))
        return _cv_loop(c, ev)
    sym_map = {"BeeProtectRegionBlockAesMode.CTR": "CTR", "BeeProtectRegionBlockAesMode.ECB": "ECB"}
    cv = ctx.model_calls(cv_bee, sym_map)
    probs, n_models = [], 0
    facs = ((0x1000, 0x400), (0x1800, 0x400))  # [0x1000,0x1400) and [0x1800,0x1C00) inside the region [0x0800, 0x2000)
    for mode in ("CTR", "ECB"):
        for klen in (16, 24):
            for addr, L in ((0x0400, 16), (0x0800, 16), (0x0FF0, 16), (0x1000, 16), (0x1000, 5), (0x13F0, 16), (0x13F8, 16), (0x1400, 16), (0x1800, 0x400), (0x1BF0, 32), (0x1C00, 16), (0x2000, 16), (0x1000, 0x401)):
                me = Obj(_cls=blk_cls, _start_addr=0x0800, _end_addr=0x2000, mode=mode, counter=b"CNTR",
                         fac_regions=tuple(Obj(_cls=fac_cls, start_addr=s_, length=l_, protected_level=0) for s_, l_ in facs))
                data = bytes((11 * i + 5) & 0xFF for i in range(L))
                try:
                    out = ordereval.Evaluator({"self": me, "key": KEY[:klen] + bytes(max(0, klen - 16)), "start_addr": addr, "data": data}, ctx.fold_sym(eb, sym_map), opaque_return=False, call_value=cv).run(A.body_of(eb.node))
                except ordereval.Unsupported as ex:
                    raise AnalysisError(f"C13.range-predicates: BeeProtectRegionBlock.encrypt_block left the fragment: {ex}")
                n_models += 1
                key = KEY[:klen] + bytes(max(0, klen - 16))
                fac = next(((s_, s_ + l_) for s_, l_ in facs if s_ <= addr < s_ + l_), None)
                inside = 0x0800 <= addr < 0x2000
                if L > 0x400:
                    want_k, want_v = "raise", None
                elif not inside:
                    want_k, want_v = "return", data
                elif mode != "CTR" or klen != 16:
                    want_k, want_v = "raise", None
                elif fac is None:
                    want_k, want_v = "return", data
                elif addr + L > fac[1]:
                    want_k, want_v = "raise", None
                else:
                    pad = data + b"R" * ((-L) % 16)
                    want_k, want_v = "return", _ks("CTR", key, ("CV", b"CNTR", addr >> 4, "Endianness.BIG"), pad)
                got_v = bytes(out.value) if isinstance(out.value, (bytes, bytearray)) else out.value
                if out.kind != want_k or (want_k == "return" and got_v != want_v):
                    probs.append(f"mode {mode} key {klen} addr {addr:#x} len {L:#x}: {out.kind}{'' if out.kind != 'return' else ' ' + ('plain' if got_v == data else 'other')}, expected {want_k}{'' if want_k != 'return' else ' ' + ('plain' if want_v == data else 'encrypted with counter addr >> 4')}")
    chk.decide(not probs, "C13.range-predicates", eb.qual, f"a block is encrypted (AES-CTR, counter = address >> 4, big endian) exactly when it starts inside the region and inside a FAC region [start, end); a block crossing the FAC end, another mode or key size is rejected; other blocks pass unchanged ({n_models} models)",
               "; ".join(probs[:3]), "", A.loc(BEE, eb.node))


def _image_model(ctx, fn, unit: int, blobs: List[Tuple[int, int, bool]], base: int, length: int, inclusive: bool, args: Dict[str, Any]):
    """Evaluate <Otfad|Iee>.encrypt_image on a model: key blobs are ranges; encrypting a block returns 0xEE bytes and is recorded."""
    recs: List[Tuple[int, int, Any]] = []
    holder: Dict[str, Any] = {}

    def sym(x: ast.expr):
        if isinstance(x, ast.Call):
            f = x.func
            ev = holder["ev"]
            if isinstance(f, ast.Name) and f.id == "split_data":
                d, u = ev.ev(x.args[0]), ev.ev(x.args[1])
                return tuple(bytes(d[i:i + u]) for i in range(0, len(d), u))
            if isinstance(f, ast.Attribute) and f.attr == "matches_range":
                kb = ev.ev(f.value)
                a, b = ev.ev(x.args[0]), ev.ev(x.args[1])
                return kb.start_addr <= a <= kb.end_addr and kb.start_addr <= b <= kb.end_addr  # the blob's own (inclusive) predicate
            if isinstance(f, ast.Attribute) and f.attr == "encrypt_image":
                a = ev.ev(x.args[0])
                blk = ev.ev(x.args[1])
                cv = None
                for k in x.keywords:
                    if k.arg == "counter_value":
                        cv = ev.ev(k.value)
                recs.append((a, len(blk), cv))
                return bytes([0xEE]) * len(blk)
            if isinstance(f, ast.Name) and f.id in ("hex", "str"):
                return ""
        if isinstance(x, ast.JoinedStr):
            return ""
        return None
    kb = tuple(Obj(start_addr=s, end_addr=e, is_encrypted=enc) for s, e, enc in blobs)
    me = Obj(_key_blobs=kb, OTFAD_DATA_UNIT=unit, IEE_DATA_UNIT=unit)
    env = {"self": me, "image": bytes(length), "base_addr": base}
    env.update(args)
    ev = ordereval.Evaluator(env, sym, opaque_return=False)
    holder["ev"] = ev
    out = ev.run(A.body_of(fn.node))
    return out, recs


import hashlib as _hl  # noqa: E402


def _ks(tag, key, state, data: bytes) -> bytes:
    stream = b""
    i = 0
    while len(stream) < len(data):
        stream += _hl.sha256(repr((tag, key, state, i)).encode()).digest()
        i += 1
    return bytes(a ^ b for a, b in zip(data, stream))

def _rev(x: bytes) -> bytes:
    return bytes(b ^ 0x5A for b in x)

def _cv_loop(c: ast.Call, ev):
    f = norm(c.func)
    if f == "align_block" and c.args:
        al = A.arg_of(c, 1, "alignment")
        d = bytes(ev.ev(c.args[0]))
        n_ = ev.ev(al) if al is not None else 4
        return d + bytes((-len(d)) % n_)
    if f == "Counter" and c.args:
        kw = {k.arg: k.value for k in c.keywords}
        ctr = ev.ev(kw["ctr_value"]) if "ctr_value" in kw else 0
        order = norm(kw["ctr_byteorder_encoding"]) if "ctr_byteorder_encoding" in kw else "Endianness.LITTLE"
        o = Obj(_counter=True, nonce=ev.ev(c.args[0]), ctr=ctr & 0xFFFFFFFF, order=order)
        o.__dict__["value"] = ("CV", o.__dict__["nonce"], o.__dict__["ctr"], order)
        return o
    if isinstance(c.func, ast.Attribute) and c.func.attr == "increment" and len(c.args) <= 1:
        o = ev.ev(c.func.value)
        if isinstance(o, Obj) and "_counter" in o.__dict__:
            o.__dict__["ctr"] = (o.__dict__["ctr"] + (ev.ev(c.args[0]) if c.args else 1)) & 0xFFFFFFFF
            o.__dict__["value"] = ("CV", o.__dict__["nonce"], o.__dict__["ctr"], o.__dict__["order"])
            return None
    if f == "self._get_ctr_nonce" and not c.args:
        return b"NONCE"
    if f == "self.matches_range":
        return True
    if f == "reverse_bytes_in_longs" and len(c.args) == 1:
        return _rev(bytes(ev.ev(c.args[0])))
    if f == "split_data" and len(c.args) + len(c.keywords) == 2:
        d = bytes(ev.ev(c.args[0]))
        n_ = ev.ev(A.arg_of(c, 1, "size"))
        return tuple(d[i:i + n_] for i in range(0, len(d), n_))
    if f == "aes_ctr_encrypt" and len(c.args) + len(c.keywords) == 3:
        return _ks("CTR", bytes(ev.ev(A.arg_of(c, 0, "key"))), ev.ev(A.arg_of(c, 2, "nonce")), bytes(ev.ev(A.arg_of(c, 1, "plain_data"))))
    if f == "aes_xts_encrypt" and len(c.args) + len(c.keywords) == 3:
        return _ks("XTS", bytes(ev.ev(A.arg_of(c, 0, "key"))), ev.ev(A.arg_of(c, 2, "tweak")), bytes(ev.ev(A.arg_of(c, 1, "plain_data"))))
    if f == "self.calculate_tweak" and len(c.args) == 1:
        return ("TWEAK", ev.ev(c.args[0]))
    return ordereval.NOT_MODELLED


def rule_image_loops(ctx) -> None:
    chk = ctx.chk
    U = 4
    for rp, cn, inclusive, extra in ((OTFAD, "Otfad", True, {"byte_swap": False}), (IEE, "Iee", False, {})):
        fn = ctx.own(rp, cn, "encrypt_image")
        cex = None
        n = 0
        for base in (0, 8):
            for length in (0, 3, 4, 8, 11, 16):
                for s, e_excl in ((0, 8), (8, 16), (4, 12), (8, 24), (100, 104)):
                    for enc in (True, False):
                        end = e_excl - 1  # key blob ranges are inclusive in both engines (end address = last byte covered)
                        try:
                            out, recs = _image_model(ctx, fn, U, [(s, end, enc)], base, length, inclusive, extra)
                        except ordereval.Unsupported as ex:
                            raise AnalysisError(f"C13.image-loop: {fn.qual} left the fragment: {ex}")
                        n += 1
                        want = bytearray(length)
                        wrec = []
                        for off in range(0, length, U):
                            a = base + off
                            ln = min(U, length - off)
                            if a >= s and a + ln <= e_excl and (enc or not inclusive):
                                want[off:off + ln] = bytes([0xEE]) * ln
                                wrec.append((a, ln, a if inclusive else None))
                        ok = out.kind == "return" and bytes(out.value) == bytes(want) and recs == wrec
                        if not ok and cex is None:
                            cex = (base, length, (s, end), enc, recs, wrec)
        chk.exhaustive_rules.add("C13.image-loop")
        chk.decide(cex is None, "C13.image-loop", fn.qual,
                   f"exactly the blocks lying completely inside a (valid) key blob are replaced, in place at their own offset" + (", each keyed with its absolute address as counter" if inclusive else "") + f"; all other bytes stay ({n} layouts incl. exact fit, overhang, miss)",
                   f"base {cex[0]}, length {cex[1]}, blob {cex[2]} encrypted={cex[3]}: encrypted blocks {cex[4]}" if cex else "", f"{cex[5]}" if cex else "", A.loc(rp, fn.node))
    # per-blob cipher loops: bytes per iteration = counter advance x counter unit
    # The three cipher loops are evaluated on a model: the block cipher is a keystream that depends on (mode, key, counter/tweak state),
    # Counter is an object with a 32-bit value, helper transforms are injective stand-ins.  What must come out is the reference
    # construction below - however the loop, the slices and the temporaries are written.
    def run_model(fn, env):
        try:
            return ordereval.Evaluator(env, ctx.fold_sym(fn), opaque_return=False, call_value=_cv_loop).run(A.body_of(fn.node))
        except ordereval.Unsupported as ex:
            raise AnalysisError(f"C13.stride-unit: {fn.qual} left the fragment: {ex}")
    ke = ctx.own(OTFAD, "KeyBlob", "encrypt_image")
    KEY = bytes(range(0x30, 0x40))
    probs, n_models = [], 0
    for base in (0x1000, 0x1008):
        for L in (0, 16, 40):
            for swap in (False, True):
                for cval in (None, 0, 0x3000, 0xFFFFFFF0):
                    data = bytes((7 * i + 3) & 0xFF for i in range(L))
                    out = run_model(ke, {"self": Obj(key=KEY, start_addr=0x2000), "base_address": base, "data": data, "byte_swap": swap, "counter_value": cval})
                    n_models += 1
                    if base % 16:
                        if out.kind != "raise":
                            probs.append(f"unaligned base {base:#x} accepted")
                        continue
                    dal = data + bytes((-L) % 16)
                    c0 = cval or 0x2000
                    want_b = b""
                    for i in range(0, len(dal), 16):
                        blk = dal[i:i + 16]
                        if swap:
                            blk = blk[7::-1] + blk[15:7:-1]
                        enc = _ks("CTR", KEY, ("CV", b"NONCE", (c0 + i) & 0xFFFFFFFF, "Endianness.BIG"), blk)
                        want_b += (enc[7::-1] + enc[15:7:-1]) if swap else enc
                    if not (out.kind == "return" and bytes(out.value) == want_b):
                        probs.append(f"base {base:#x} len {L} swap {swap} counter {cval}: {out.kind}, differs from the reference construction")
    chk.decide(not probs, "C13.stride-unit", ke.qual, f"OTFAD: 16 bytes per block, big-endian byte-address counter advanced by 16 per block, starting at the given counter or the blob's start address; optional swap of both 8-byte halves before and after ({n_models} models)", "; ".join(probs[:3]), "", A.loc(OTFAD, ke.node))
    chk.decide(not [p_ for p_ in probs if "counter None" in p_ or "counter 0:" in p_], "C13.stride-unit", ke.qual + " default", "without an explicit counter the blob's start address is used", "", "", A.loc(OTFAD, ke.node))
    ic = ctx.own(IEE, "IeeKeyBlob", "encrypt_image_ctr")
    K1, K2 = bytes(range(0x50, 0x60)), bytes(range(0x70, 0x80))
    probs, n_models = [], 0
    for base in (0x0, 0x1000, 0x12345000):
        for L in (0, 16, 48, 0x1010):
            data = bytes((5 * i + 1) & 0xFF for i in range(L))
            out = run_model(ic, {"self": Obj(key1=K1, key2=K2), "base_address": base, "data": data})
            n_models += 1
            want_b = b"".join(_ks("CTR", _rev(K1), ("CV", _rev(K2), ((base >> 4) + i // 16) & 0xFFFFFFFF, "Endianness.BIG"), data[i:i + 16]) for i in range(0, L, 16))
            if not (out.kind == "return" and bytes(out.value) == want_b):
                probs.append(f"base {base:#x} len {L}: {out.kind}, differs from the reference construction")
    chk.decide(not probs, "C13.stride-unit", ic.qual, f"IEE-CTR: counter counts 16-byte units: starts at address >> 4 and advances by one unit per 16-byte block ({n_models} models)", "; ".join(probs[:3]), "", A.loc(IEE, ic.node))
    ix = ctx.own(IEE, "IeeKeyBlob", "encrypt_image_xts")
    probs, n_models = [], 0
    for base in (0x0, 0x3000, 0x12345000):
        for L in (0, 0x1000, 0x2800):
            data = bytes((3 * i + 2) & 0xFF for i in range(L))
            out = run_model(ix, {"self": Obj(key1=K1, key2=K2), "base_address": base, "data": data})
            n_models += 1
            want_b = b"".join(_ks("XTS", _rev(K1) + _rev(K2), ("TWEAK", base + i), data[i:i + 0x1000]) for i in range(0, L, 0x1000))
            if not (out.kind == "return" and bytes(out.value) == want_b):
                probs.append(f"base {base:#x} len {L:#x}: {out.kind}, differs from the reference construction")
    chk.decide(not probs, "C13.stride-unit", ix.qual, f"IEE-XTS: 4 KiB data units, tweak from the running absolute address advanced by the bytes consumed, key = key1 || key2 ({n_models} models)", "; ".join(probs[:3]), "", A.loc(IEE, ix.node))
    kb = ctx.cls(IEE, "IeeKeyBlob")
    xs = ctx.prog.fold(kb.consts.get("_IEE_ENCR_BLOCK_SIZE_XTS"), kb.module, kb)
    ct = ctx.own(IEE, "IeeKeyBlob", "calculate_tweak")
    cex = None
    for addr in (0, 0x1000, 0x1FFF, 0x2000, 0x12345000, 0xFFFFF000):
        out = ordereval.Evaluator({"address": addr}, ctx.fold_sym(ct), opaque_return=False).run(A.body_of(ct.node))
        want = (addr >> 12).to_bytes(16, "little")
        if not (out.kind == "return" and bytes(out.value) == want) and cex is None:
            cex = (hex(addr), out.value)
    chk.decide(cex is None and xs == 0x1000, "C13.stride-unit", ct.qual, "tweak = sector number (address >> 12) little-endian in 16 bytes; XTS data unit = 4 KiB", f"{cex} unit {xs}", "", A.loc(IEE, ct.node))
    # (BEE: the per-block counter = address >> 4 is part of the encrypt_block model in rule_predicates)


def rule_keyblob_layout(ctx) -> None:
    chk, prog = ctx.chk, ctx.prog
    pd = ctx.own(OTFAD, "KeyBlob", "plain_data")
    kcls = ctx.cls(OTFAD, "KeyBlob")
    fold = lambda e: prog.fold(e, pd.module, kcls)  # noqa: E731
    import struct as _struct
    import zlib as _zlib
    kc = fold(kcls.consts.get("KEY_SIZE")), fold(kcls.consts.get("CTR_SIZE"))
    masks = fold(kcls.consts.get("_KEY_FLAG_MASK")), fold(kcls.consts.get("_END_ADDR_MASK"))
    chk.decide(kc == (16, 8) and masks == (0x07, 0x3F8), "C13.wire", pd.qual + " constants", "key 16 bytes, counter 8 bytes, flag mask 0x07, end-address mask 0x3F8", f"{kc} {masks}", "", A.loc(OTFAD, kcls.node))

    def crc_model(alg: str, data: bytes) -> int:
        return _zlib.crc32(alg.encode() + b"|" + data)  # a stand-in: only (algorithm, covered bytes) -> value matters

    def cv_common(c: ast.Call, ev):
        f = norm(c.func)
        if f in ("pack", "struct.pack") and c.args and not c.keywords:
            try:
                return _struct.pack(ev.ev(c.args[0]), *[ev.ev(a) for a in c.args[1:]])
            except _struct.error:
                raise ordereval.Unsupported(c, "struct.error on the model")
        if f == "from_crc_algorithm" and len(c.args) == 1:
            return Obj(_crc=norm(c.args[0]))
        if isinstance(c.func, ast.Attribute) and c.func.attr == "calculate" and len(c.args) == 1:
            o = ev.ev(c.func.value)
            if isinstance(o, Obj) and "_crc" in o.__dict__:
                return crc_model(o.__dict__["_crc"], bytes(ev.ev(c.args[0])))
        if isinstance(c.func, ast.Attribute) and c.func.attr == "to_bytes" and not isinstance(c.func.value, ast.Name):
            v = ev.ev(c.func.value)
            if isinstance(v, int) and not isinstance(v, bool):
                return v.to_bytes(ev.ev(A.arg_of(c, 0, "length")), ev.ev(A.arg_of(c, 1, "byteorder")))
        if f == "random_bytes" and len(c.args) == 1:
            return b"R" * ev.ev(c.args[0])
        return ordereval.NOT_MODELLED
    # KeyBlob.plain_data evaluated on models: (range/flags present?) x (zero fill given / wrong size / absent) x (crc fill ...)
    probs = []
    n_models = 0
    K, CIV = bytes(range(1, 17)), bytes(range(0x21, 0x29))
    sym_pd = ctx.fold_sym(pd, {"Endianness.LITTLE.value": "little", "Endianness.BIG.value": "big"})
    for end, flags in ((0x2400, 3), (0x2400, 0), (0, 0)):  # (end 0 with flags is rejected by the constructor)
        for zf in (b"", b"ZZZZ", b"ZZ"):
            for cf in (b"", b"CCCC", b"CCCCC"):
                me = Obj(key=K, ctr_init_vector=CIV, start_addr=0x1000, end_addr=end, key_flags=flags, zero_fill=zf, crc_fill=cf)
                try:
                    out = ordereval.Evaluator({"self": me}, sym_pd, opaque_return=False, call_value=cv_common).run(A.body_of(pd.node))
                except ordereval.Unsupported as ex:
                    raise AnalysisError(f"C13.wire: KeyBlob.plain_data left the fragment: {ex}")
                n_models += 1
                if len(zf) not in (0, 4) or len(cf) not in (0, 4):
                    if out.kind != "raise":
                        probs.append(f"zero_fill {zf!r} / crc_fill {cf!r} of a wrong size is accepted")
                    continue
                ew = (((end - 1) & ~0x07) | flags | 0x3F8) if (end or flags) else 0
                head = K + CIV + _struct.pack("<II", 0x1000, ew)
                want_b = head + (zf or b"RRRR") + (cf or crc_model("CrcAlg.CRC32_MPEG", head).to_bytes(4, "little")) + bytes(24)
                if not (out.kind == "return" and bytes(out.value) == want_b):
                    got_b = bytes(out.value).hex() if out.kind == "return" and isinstance(out.value, (bytes, bytearray)) else out.kind
                    probs.append(f"end {end:#x} flags {flags} zero_fill {zf!r} crc_fill {cf!r}: {got_b} != {want_b.hex()}")
    chk.decide(not probs, "C13.wire", pd.qual, f"64-byte blob: key | counter | start (LE) | end-with-flags (LE) | zero fill or 4 random | CRC-32/MPEG-2 (LE) of those first 32 bytes or the given CRC fill | 24 zero bytes ({n_models} models)",
               "; ".join(probs[:2]), "", A.loc(OTFAD, pd.node))
    # KeyBlob.export: RFC 3394 wrap of the first 40 bytes, optional byte swap in groups, zero padded to 64
    ex = ctx.own(OTFAD, "KeyBlob", "export")
    probs = []
    PT = bytes(range(0x40, 0x80))

    def cv_ex(c: ast.Call, ev):
        f = norm(c.func)
        if f == "self.plain_data" and not c.args:
            return PT
        if f == "aes_key_wrap" and len(c.args) + len(c.keywords) == 2:
            return b"W" + ev.ev(A.arg_of(c, 0, "kek"))[:3] + ev.ev(A.arg_of(c, 1, "key_to_wrap") if A.arg_of(c, 1, "key_to_wrap") is not None else c.args[1]) + b"wwww"
        if f == "bytes.fromhex" and len(c.args) == 1:
            return bytes.fromhex(ev.ev(c.args[0]))
        if f == "align_block" and c.args:
            al, pad = A.arg_of(c, 1, "alignment"), A.arg_of(c, 2, "padding")
            d = bytes(ev.ev(c.args[0]))
            n = ev.ev(al) if al is not None else 4
            pv = ev.ev(pad) if pad is not None else 0
            if not isinstance(pv, int):
                return ordereval.NOT_MODELLED
            return d + bytes([pv]) * ((-len(d)) % n)
        return cv_common(c, ev)
    sym_ex = ctx.fold_sym(ex)
    for kek in (bytes(range(16)), bytes(range(16)).hex(), bytes(5)):
        for swap in (0, 4, 8):
            try:
                out = ordereval.Evaluator({"self": Obj(), "kek": kek, "iv": bytes([0xA6] * 8), "byte_swap_cnt": swap}, sym_ex, opaque_return=False, call_value=cv_ex).run(A.body_of(ex.node))
            except ordereval.Unsupported as e2:
                raise AnalysisError(f"C13.wire: KeyBlob.export left the fragment: {e2}")
            if kek == bytes(5):
                if out.kind != "raise":
                    probs.append("a 5-byte KEK is accepted")
                continue
            wrap = b"W" + bytes(range(16))[:3] + PT[:40] + b"wwww"
            if swap:
                wrap = b"".join(wrap[i:i + swap][::-1] for i in range(0, len(wrap), swap))
            want_b = wrap + bytes((-len(wrap)) % 64)
            if not (out.kind == "return" and bytes(out.value) == want_b):
                probs.append(f"kek {'hex' if isinstance(kek, str) else 'bytes'}, swap {swap}: {out.kind} {bytes(out.value).hex() if isinstance(out.value, (bytes, bytearray)) else out.value}")
    chk.decide(not probs, "C13.wire", ex.qual, "RFC 3394 wrap of the first 40 bytes (5 x 64 bit) with the KEK, optional byte swap in groups, padded to 64", "; ".join(probs[:2]), "", A.loc(OTFAD, ex.node))
    nn = ctx.own(OTFAD, "KeyBlob", "_get_ctr_nonce")
    cex = None
    civ = bytes(range(1, 9))
    out = ordereval.Evaluator({"self": Obj(ctr_init_vector=civ)}, ctx.fold_sym(nn), opaque_return=False).run(A.body_of(nn.node))
    want = civ[:4] + civ[4:] + bytes(a ^ b for a, b in zip(civ[:4], civ[4:])) + bytes(4)
    chk.decide(out.kind == "return" and bytes(out.value) == want, "C13.wire", nn.qual, "nonce = CTR[0:4] | CTR[4:8] | CTR[0:4]^CTR[4:8] | 0 (32-bit block counter)", f"{out.value}", f"{want}", A.loc(OTFAD, nn.node))
    # IEE plain data: CRC over everything before it
    ip = ctx.own(IEE, "IeeKeyBlob", "plain_data")
    # evaluated on models: tag, version | attributes | page offset | key1, key2 (each padded to 32) | start, end, 0 | CRC of all of it
    icls = ctx.cls(IEE, "IeeKeyBlob")
    tag_v = ctx.prog.fold(icls.consts.get("HEADER_TAG"), icls.module, icls)
    ver_v = ctx.prog.fold(icls.consts.get("KEYBLOB_VERSION"), icls.module, icls)
    if not isinstance(tag_v, int) or not isinstance(ver_v, int):
        raise AnalysisError("C13.wire: IeeKeyBlob.HEADER_TAG / KEYBLOB_VERSION do not fold")

    def cv_iee(c: ast.Call, ev):
        f = norm(c.func)
        if f == "align_block" and 1 <= len(c.args) <= 2 and all(k.arg == "alignment" for k in c.keywords):
            d_ = bytes(ev.ev(c.args[0]))
            al = ev.ev(A.arg_of(c, 1, "alignment")) if A.arg_of(c, 1, "alignment") is not None else 4
            return d_ + bytes(-len(d_) % al)
        if isinstance(c.func, ast.Attribute) and c.func.attr == "export" and not c.args and not c.keywords:
            o = ev.ev(c.func.value)
            if isinstance(o, Obj) and "_export" in o.__dict__:
                return o.__dict__["_export"]
        return cv_common(c, ev)
    probs = []
    sym_ip = ctx.fold_sym(ip, {"Endianness.LITTLE.value": "little", "Endianness.BIG.value": "big"})
    for k1, k2 in ((bytes(range(1, 33)), bytes(range(0x41, 0x61))), (bytes(range(1, 17)), bytes(range(0x41, 0x51)))):
        me = Obj(HEADER_TAG=tag_v, KEYBLOB_VERSION=ver_v, attributes=Obj(_export=b"ATTR"), page_offset=0x11223344, key1=k1, key2=k2, start_addr=0x30001000, end_addr=0x30008FFF)
        try:
            out = ordereval.Evaluator({"self": me}, sym_ip, opaque_return=False, call_value=cv_iee).run(A.body_of(ip.node))
        except ordereval.Unsupported as e2:
            raise AnalysisError(f"C13.wire: IeeKeyBlob.plain_data left the fragment: {e2}")
        body_b = _struct.pack("<II", tag_v, ver_v) + b"ATTR" + _struct.pack("<I", 0x11223344) + k1 + bytes(32 - len(k1)) + k2 + bytes(32 - len(k2)) + _struct.pack("<III", 0x30001000, 0x30008FFF, 0)
        want_b = body_b + crc_model("CrcAlg.CRC32_MPEG", body_b).to_bytes(4, "little")
        if not (out.kind == "return" and isinstance(out.value, (bytes, bytearray)) and bytes(out.value) == want_b):
            probs.append(f"{len(k1)}-byte keys: {bytes(out.value).hex() if isinstance(out.value, (bytes, bytearray)) else out.kind} != {want_b.hex()}")
    chk.decide(not probs, "C13.wire", ip.qual, "tag, version, attributes, page offset, key1, key2, start, end, 0, then the CRC-32/MPEG-2 (LE) of all of that (2 models)", "; ".join(probs[:1])[:400], "", A.loc(IEE, ip.node))
    for cn in ("BeeFacRegion", "BeeProtectRegionBlock", "BeeKIB"):
        wire.check_pair(ctx, "C13.wire", BEE, cn, "export", "parse")
    # the same three BEE blocks interpreted on model objects (E19): parse(export(x)) has the fields of x and exports to the same bytes
    from ..engines import roundtrip
    mode = ctx.enum_model(ctx.cls(BEE, "BeeProtectRegionBlockAesMode"))
    roundtrip.check_classes(ctx, "C13.bee-roundtrip", BEE, [
        ("BeeFacRegion", [{"start": 0x1000, "length": 0x2000, "protected_level": 2}, {"start": 0x400, "length": 0x400, "protected_level": 0}]),
        ("BeeProtectRegionBlock", [{"encr_mode": mode.CTR, "lock_options": 1, "counter": bytes(range(12)) + bytes(4),
                                    "__setup1": "obj.add_fac(BeeFacRegion(0x1000, 0x2000, 1))", "__setup2": "obj.add_fac(BeeFacRegion(0x8000, 0x400, 3))"}]),
        ("BeeKIB", [{"kib_key": bytes(range(16)), "kib_iv": bytes(range(16, 32))}]),
    ], floor=3)
    # the protected region of a PRDB is the bounding box of its FAC regions, in whatever order they were added (update() interpreted)
    rtb = roundtrip.RoundTrip(ctx, BEE, "BeeProtectRegionBlock")
    probs = []
    facs = {"a": (0x1000, 0x800), "b": (0x2000, 0x1000), "c": (0x4000, 0x400)}
    orders = (("a",), ("a", "b", "c"), ("c", "b", "a"), ("b", "c", "a"), ("b", "a"))
    for order in orders:
        obj = rtb.ev("BeeProtectRegionBlock(encr_mode=m, lock_options=0, counter=c)", {"m": mode.CTR, "c": bytes(range(12)) + bytes(4)})
        for k in order:
            rtb.ev(f"obj.add_fac(BeeFacRegion({facs[k][0]}, {facs[k][1]}, 1))", {"obj": obj})
        rtb.ev("obj.update()", {"obj": obj})
        lo, hi = min(facs[k][0] for k in order), max(facs[k][0] + facs[k][1] for k in order)
        got = (obj.__dict__.get("_start_addr"), obj.__dict__.get("_end_addr"))
        if got != (lo, hi):
            probs.append(f"FAC regions added in order {order}: protected region {tuple(hex(x) if isinstance(x, int) else x for x in got)}, the regions span ({lo:#x}, {hi:#x})")
    chk.exhaustive_rules.add("C13.prdb-bounding-box")
    chk.decide(not probs, "C13.prdb-bounding-box", f"{BEE}::BeeProtectRegionBlock.update", f"start / end of the protected region = min start / max end of the FAC regions ({len(orders)} orders of adding)",
               "; ".join(probs[:2]), "bounding box", A.loc(BEE, rtb.cls.node))


def rule_scramble(ctx) -> None:
    """Otfad.encrypt_key_blobs evaluated on a model table of three blobs (helpers of the class are stepped into): which KEK every
    blob is exported with, for every combination of (mask given / 0 / value / too wide) x (align given / 0 / value / too wide) x reversed."""
    chk = ctx.chk
    fn = ctx.own(OTFAD, "Otfad", "encrypt_key_blobs")
    ocls = ctx.cls(OTFAD, "Otfad")
    KEK = bytes(range(0x10, 0x20))

    def leaves(c: ast.Call, ev):
        f = norm(c.func)
        if isinstance(c.func, ast.Attribute) and c.func.attr == "export" and len(c.args) >= 1:
            o = ev.ev(c.func.value)
            if isinstance(o, Obj) and "_blob" in o.__dict__:
                sw = A.arg_of(c, 1, "byte_swap_cnt")
                return b"[" + bytes([o.__dict__["_blob"]]) + bytes(ev.ev(c.args[0])) + bytes([ev.ev(sw) if sw is not None else 0]) + b"]"
        if f == "reverse_bits" and len(c.args) == 2:
            x, w = ev.ev(c.args[0]), ev.ev(c.args[1])
            return sum(((x >> i) & 1) << (w - 1 - i) for i in range(w))
        if f == "align_block" and len(c.args) == 2 and not c.keywords:
            d_ = bytes(ev.ev(c.args[0]))
            return d_ + bytes(-len(d_) % ev.ev(c.args[1]))
        if f == "bytes.fromhex" and len(c.args) == 1:
            return bytes.fromhex(ev.ev(c.args[0]))
        return ordereval.NOT_MODELLED
    calls = ctx.model_calls(leaves, {"Endianness.LITTLE.value": "little", "Endianness.BIG.value": "big"}, classes={"Otfad": ocls})
    sym = ctx.fold_sym(fn, {"Endianness.LITTLE.value": "little", "Endianness.BIG.value": "big"})
    by_rule: Dict[str, List[str]] = {"switch": [], "use": [], "kek": [], "ranges": []}
    n = 0
    for mask in (None, 0, 0x8000_0001, 0xA1B2C3D4, 1 << 32):
        for al in (None, 0, 0x1E, 0x72, 1 << 8):
            for rev in (False, True):
                for kek_in in (KEK, KEK.hex()):
                    me = Obj(_cls=ocls, reversed_scramble_key=rev, _key_blobs=tuple(Obj(_blob=i) for i in range(3)))
                    env = {"self": me, "kek": kek_in, "key_scramble_mask": mask, "key_scramble_align": al, "byte_swap_cnt": 5}
                    try:
                        out = ordereval.Evaluator(env, sym, opaque_return=False, call_value=calls).run(A.body_of(fn.node))
                    except ordereval.Unsupported as ex:
                        raise AnalysisError(f"C13.scramble: encrypt_key_blobs left the fragment: {ex}")
                    n += 1
                    on = mask is not None and al is not None
                    label = f"mask={mask!r} align={al!r} reversed={rev}"
                    if on and (mask >= 1 << 32 or al >= 1 << 8):
                        if out.kind != "raise":
                            by_rule["ranges"].append(f"{label}: accepted")
                        continue
                    if out.kind != "return" or not isinstance(out.value, (bytes, bytearray)):
                        by_rule["switch"].append(f"{label}: {out.kind} {out.value!r}")
                        continue
                    blobs = []
                    for i in range(3):
                        k = bytearray(KEK)
                        if on:
                            m_ = sum(((mask >> b_) & 1) << (31 - b_) for b_ in range(32)) if rev else mask
                            w_ = (al >> (2 * i)) & 3
                            for j in range(4):
                                k[4 * w_ + j] ^= m_.to_bytes(4, "little")[j]
                        blobs.append(b"[" + bytes([i]) + bytes(k) + b"\x05]")
                    want_b = b"".join(blobs)
                    want_b += bytes(-len(want_b) % 256)
                    if bytes(out.value) != want_b:
                        plain = b"".join(b"[" + bytes([i]) + KEK + b"\x05]" for i in range(3))
                        plain += bytes(-len(plain) % 256)
                        which = "switch" if (bytes(out.value) == plain) != (not on) else ("use" if not on else "kek")
                        by_rule[which].append(f"{label}: blob KEKs {bytes(out.value)[:60].hex()} expected {want_b[:60].hex()}")
    chk.exhaustive_rules.add("C13.scramble")
    for key, text in (("switch", "scrambling is on exactly when both mask and align are given (0 is a legal value)"), ("use", "without scrambling every blob is wrapped with the plain KEK"),
                      ("kek", "blob i XORs the (optionally bit-reversed) little-endian mask into KEK word (align >> 2i) & 3"), ("ranges", "a mask wider than 32 bit or an align wider than 8 bit is refused")):
        chk.decide(not by_rule[key], "C13.scramble", fn.qual + " " + key, f"{text} ({n} models)", "; ".join(by_rule[key][:2])[:500], "", A.loc(OTFAD, fn.node))


def rule_dispatch_addresses(ctx) -> None:
    """C13.own-address: every blob (image or segment) is encrypted at ITS OWN absolute address; C13.every-engine: every BEE engine is
    offered every block (whether a block falls into an engine's regions is decided by that engine, block by block)."""
    chk = ctx.chk
    # export_image evaluated on a model image tree (two data blobs, the second with two segments; helper methods and lambdas are
    # stepped into): every non-empty blob / segment must be handed to encrypt_image with ITS OWN absolute address + the table base
    from ..engines import ordereval as _oe
    MObj = _oe.Obj
    for rp, cn, base_attr in (("spsdk/utils/crypto/iee.py", "IeeNxp", "keyblob_address"), ("spsdk/utils/crypto/otfad.py", "OtfadNxp", None)):
        kcls = ctx.prog.cls(rp, cn)
        fn = ctx.own(rp, cn, "export_image") if kcls.method("export_image") else ctx.own(rp, cn, "binary_image")

        def mk(name, addr, binary, subs=()):
            return MObj(_node=name, absolute_address=addr, binary=binary, sub_images=tuple(subs))
        tree = mk("root", 0, None, [mk("blob0", 0x1000, b"A" * 16), mk("blob1", 0x3000, b"", [mk("seg0", 0x3000, b"B" * 32), mk("seg1", 0x3400, b"C" * 16), mk("seg2", 0x3800, b"")])])
        log = []

        def cv(c: ast.Call, ev, log=log):
            f = norm(c.func)
            if f == "align_block" and c.args:
                d = bytes(ev.ev(c.args[0]))
                al = ev.ev(A.arg_of(c, 1, "alignment")) if A.arg_of(c, 1, "alignment") is not None else 4
                return d + bytes((-len(d)) % al)
            if isinstance(c.func, ast.Attribute) and c.func.attr in ("validate", "join_images") and not c.args:
                o = ev.ev(c.func.value)
                if isinstance(o, MObj) and "_node" in o.__dict__:
                    return None
            if f == "self.encrypt_image" and len(c.args) + len(c.keywords) >= 2:
                data, addr = ev.ev(c.args[0]), ev.ev(c.args[1] if len(c.args) > 1 else A.arg_of(c, 1, "base_addr"))
                log.append((bytes(data), addr))
                return b"E" + bytes(data)[1:]
            return _oe.NOT_MODELLED
        BASE = 0x20000
        me = MObj(_cls=kcls, binaries=tree, keyblob_address=BASE)
        from ..engines import roundtrip as _rt
        before = _rt.fields_of(tree, 6)
        env = {"self": me, "plain_data": False, "swap_bytes": False, "join_sub_images": False, "table_address": BASE}
        env = {k: v for k, v in env.items() if k == "self" or k in [a.arg for a in fn.node.args.args + fn.node.args.kwonlyargs]}
        try:
            out = _oe.Evaluator(env, ctx.fold_sym(fn), opaque_return=False, call_value=ctx.model_calls(cv, classes={cn: kcls})).run(A.body_of(fn.node))
        except _oe.Unsupported as ex:
            raise AnalysisError(f"C13.own-address: {fn.qual} left the fragment: {ex}")
        want_log = [(b"A" * 16, BASE + 0x1000), (b"B" * 32, BASE + 0x3000), (b"C" * 16, BASE + 0x3400)]
        ok = out.kind == "return" and sorted(log) == sorted(want_log)
        after = _rt.fields_of(me.binaries, 6)
        chk.decide(before == after, "C13.export-keeps-plaintext", f"{fn.qual}", "the export encrypts a copy: the object's own image tree still holds the plaintext afterwards (a second export gives the same bytes)",
                   "after export the object's image tree holds encrypted data (the copy shares the blobs): a second export encrypts again" if before != after else "", "", A.loc(rp, fn.node))
        chk.decide(ok, "C13.own-address", f"{fn.qual}", "every non-empty data blob and segment is encrypted exactly once, at its own absolute address plus the table / key-blob base",
                   f"encrypted (length, address): {[(len(d), hex(a) if isinstance(a, int) else a) for d, a in log]} ({out.kind})", f"{[(len(d), hex(a)) for d, a in want_log]}", A.loc(rp, fn.node))
    chk.floor("C13.own-address", 2)
    # BEE: each block is offered to every configured engine.  BeeNxp.export_image evaluated as a whole function on a model with
    # three engine slots (one unused); engines record what they are offered and tag the block; their bounding boxes say anything.
    BEE = "spsdk/image/bee.py"
    fn = ctx.own(BEE, "BeeNxp", "export_image")
    from ..engines.ordereval import Evaluator, Obj, Unsupported
    unit = ctx.prog.fold(ast.Name(id="BEE_ENCR_BLOCK_SIZE", ctx=ast.Load()), fn.module)
    if not isinstance(unit, int) or unit <= 0:
        raise AnalysisError("C13.every-engine: BEE_ENCR_BLOCK_SIZE does not fold")
    probs = []
    n = 0
    image = bytes([1]) * unit + bytes([2]) * unit + bytes([3]) * (unit // 2)
    for inside in ((False, False), (True, False), (False, True), (True, True)):
        offered: List[Tuple[int, int, int]] = []

        def cv(c: ast.Call, ev, inside=inside, offered=offered):
            f = norm(c.func)
            if f == "split_data" and len(c.args) == 2:
                d_, u_ = bytes(ev.ev(c.args[0])), ev.ev(c.args[1])
                return tuple(d_[i:i + u_] for i in range(0, len(d_), u_))
            if isinstance(c.func, ast.Attribute) and c.func.attr in ("encrypt_block", "is_inside_region"):
                try:
                    eng = ev.ev(c.func.value)
                except Unsupported:
                    return ordereval.NOT_MODELLED
                if isinstance(eng, Obj) and "ix" in eng.__dict__:
                    if c.func.attr == "is_inside_region":
                        return inside[eng.ix]
                    addr, blk = ev.ev(c.args[0]), bytes(ev.ev(c.args[1]))
                    offered.append((eng.ix, addr, len(blk)))
                    return bytes((x + 16 * (eng.ix + 1)) & 0xFF for x in blk)
            return ordereval.NOT_MODELLED
        me = Obj(headers=(Obj(ix=0), None, Obj(ix=1)), input_image=image, base_address=0x6000_1000)
        try:
            out = Evaluator({"self": me}, ctx.fold_sym(fn), opaque_return=False, call_value=cv).run(A.body_of(fn.node))
        except Unsupported as u:
            raise AnalysisError(f"C13.every-engine: {fn.qual} left the fragment: {u}")
        n += 1
        want_off = [(ix, 0x6000_1000 + k * unit, ln) for k, ln in enumerate((unit, unit, unit // 2)) for ix in (0, 1)]
        want_out = bytes((x + 48) & 0xFF for x in image)
        if offered != want_off or out.kind != "return" or bytes(out.value) != want_out:
            probs.append(f"engine bounding boxes say {inside}: blocks offered (engine, address, length) {[(i, hex(a_), l) for i, a_, l in offered][:6]}")
    chk.exhaustive_rules.add("C13.every-engine")
    chk.decide(not probs, "C13.every-engine", fn.qual, f"each block is passed to every configured engine in order at its own address, whatever the engines' bounding boxes say ({n} cases); the FAC region test inside encrypt_block decides",
               "; ".join(probs[:2])[:600], "for header in self.headers: if header: block = header.encrypt_block(base_address, block)", A.loc(BEE, fn.node))


def run(ctx) -> None:
    ctx.chk.explain("C13: address-range predicates decided on order types; Otfad/Iee.encrypt_image evaluated on finite models (scaled data unit, blobs that fit exactly, overhang or miss) "
                    "against the block-containment reference; per-blob cipher loops checked for stride x counter-unit agreement; OTFAD key-blob layout and CRC input by symbolic "
                    "byte layout; nonce and tweak construction evaluated; BEE wire symmetry; the key-scramble switch decided on {None, 0, value}^2.")
    ctx.rule(rule_predicates)
    ctx.rule(rule_image_loops)
    ctx.rule(rule_keyblob_layout)
    ctx.rule(rule_scramble)
    ctx.rule(rule_dispatch_addresses)
    ctx.chk.assumptions = ["AES-CTR/XTS/key-wrap wrappers as decided in C09", "OTFAD end addresses may be inclusive (…3FF) or aligned; IEE end addresses are aligned (exclusive) as documented",
                           "not decided: that the hardware model decrypts (values), byte-swap permutations"]


MANIFEST = {
    "level": "Static decision of the address logic for all images/bases/blob ranges by evaluating the block loops on scaled finite models (complete for the comparisons involved) and "
             "of the layouts/counter units by symbolic extraction. Cipher outputs are not computed.",
    "note": "Trusted: the evaluator, crypto wrappers (C09). Not decided: hardware decryption at value level.",
    "technique": "static analysis: order-type predicates, abstract evaluation of block loops on finite models, symbolic byte layout, struct symmetry, finite-model evaluation of the three cipher loops, the key blob and the BEE block with a keystream model (interprocedural), export/parse round trip of the BEE blocks interpreted on model objects (E19), PRDB bounding box over FAC orders, KEK scrambling and IEE key blob as whole-function models, export-keeps-plaintext (object state before/after an interpreted export)",
}
