"""C13 Flash encryption (OTFAD, IEE, BEE): range predicates, block loops on models, key-blob layouts, scramble switch."""
from __future__ import annotations

import ast
from typing import Any, Dict, List, Tuple

from ..core import astutil as A
from ..core.loader import AnalysisError
from ..core.report import norm
from ..engines import bytelayout, ordereval, wire
from ..engines.ordereval import Obj

OTFAD = "spsdk/utils/crypto/otfad.py"
IEE = "spsdk/utils/crypto/iee.py"
BEE = "spsdk/image/bee.py"


def rule_predicates(ctx) -> None:
    chk = ctx.chk
    for rp, cn in ((OTFAD, "KeyBlob"), (IEE, "IeeKeyBlob")):
        ca = ctx.own(rp, cn, "contains_addr")
        mr = ctx.own(rp, cn, "matches_range")
        cex = None
        n = 0
        for s in range(0, 4):
            for e in range(s, 5):
                for a in range(-1, 7):
                    out = ordereval.Evaluator({"self": Obj(start_addr=s, end_addr=e), "addr": a}, opaque_return=False).run(A.body_of(ca.node))
                    n += 1
                    if out.value != (s <= a <= e) and cex is None:
                        cex = (s, e, a, out.value)
        chk.exhaustive_rules.add("C13.range-predicates")
        chk.decide(cex is None, "C13.range-predicates", ca.qual, f"true exactly for start <= addr <= end ({n} order types)", f"start {cex[0]} end {cex[1]} addr {cex[2]}: {cex[3]}" if cex else "", "", A.loc(rp, ca.node))
        r = A.returns_in(mr.node)
        chk.decide(bool(r) and norm(r[-1].value) == "self.contains_addr(image_start) and self.contains_addr(image_end)", "C13.range-predicates", mr.qual, "both ends of the range lie inside the blob", norm(r[-1]) if r else "", "", A.loc(rp, mr.node))
    ir = ctx.own(BEE, "BeeProtectRegionBlock", "is_inside_region")
    cex = None
    for s in range(0, 3):
        for e in range(s, 5):
            for a in range(-1, 6):
                out = ordereval.Evaluator({"self": Obj(_start_addr=s, _end_addr=e), "start_addr": a}, opaque_return=False).run(A.body_of(ir.node))
                if out.value != (s <= a < e) and cex is None:
                    cex = (s, e, a, out.value)
    chk.decide(cex is None, "C13.range-predicates", ir.qual, "half-open: start <= addr < end", f"{cex}", "", A.loc(BEE, ir.node))
    eb = ctx.own(BEE, "BeeProtectRegionBlock", "encrypt_block")
    t = norm(eb.node)
    chk.decide("if fac.start_addr <= start_addr < fac.end_addr:" in t and "if start_addr + len(data) > fac.end_addr:" in t, "C13.range-predicates", eb.qual, "FAC region test is half-open and a block may not cross the region end", "", "", A.loc(BEE, eb.node))


def _image_model(ctx, fn, unit: int, blobs: List[Tuple[int, int, bool]], base: int, length: int, inclusive: bool, args: Dict[str, Any]):
    """Evaluate <Otfad|Iee>.encrypt_image on a model: key blobs are ranges; encrypting a block returns 0xEE bytes and is recorded."""
    recs: List[Tuple[int, int, Any]] = []
    holder: Dict[str, Any] = {}

    def sym(x: ast.expr):
        if isinstance(x, ast.Call):
            f = x.func
            ev = holder["ev"]
            if isinstance(f, ast.Name) and f.id == "split_data":
                d, u = ev.ev(x.args[0]), ev.ev(x.args[1])
                return tuple(bytes(d[i:i + u]) for i in range(0, len(d), u))
            if isinstance(f, ast.Attribute) and f.attr == "matches_range":
                kb = ev.ev(f.value)
                a, b = ev.ev(x.args[0]), ev.ev(x.args[1])
                return kb.start_addr <= a <= kb.end_addr and kb.start_addr <= b <= kb.end_addr  # the blob's own (inclusive) predicate
            if isinstance(f, ast.Attribute) and f.attr == "encrypt_image":
                a = ev.ev(x.args[0])
                blk = ev.ev(x.args[1])
                cv = None
                for k in x.keywords:
                    if k.arg == "counter_value":
                        cv = ev.ev(k.value)
                recs.append((a, len(blk), cv))
                return bytes([0xEE]) * len(blk)
            if isinstance(f, ast.Name) and f.id in ("hex", "str"):
                return ""
        if isinstance(x, ast.JoinedStr):
            return ""
        return None
    kb = tuple(Obj(start_addr=s, end_addr=e, is_encrypted=enc) for s, e, enc in blobs)
    me = Obj(_key_blobs=kb, OTFAD_DATA_UNIT=unit, IEE_DATA_UNIT=unit)
    env = {"self": me, "image": bytes(length), "base_addr": base}
    env.update(args)
    ev = ordereval.Evaluator(env, sym, opaque_return=False)
    holder["ev"] = ev
    out = ev.run(A.body_of(fn.node))
    return out, recs


def rule_image_loops(ctx) -> None:
    chk = ctx.chk
    U = 4
    for rp, cn, inclusive, extra in ((OTFAD, "Otfad", True, {"byte_swap": False}), (IEE, "Iee", False, {})):
        fn = ctx.own(rp, cn, "encrypt_image")
        cex = None
        n = 0
        for base in (0, 8):
            for length in (0, 3, 4, 8, 11, 16):
                for s, e_excl in ((0, 8), (8, 16), (4, 12), (8, 24), (100, 104)):
                    for enc in (True, False):
                        end = e_excl - 1 if inclusive else e_excl
                        try:
                            out, recs = _image_model(ctx, fn, U, [(s, end, enc)], base, length, inclusive, extra)
                        except ordereval.Unsupported as ex:
                            raise AnalysisError(f"C13.image-loop: {fn.qual} left the fragment: {ex}")
                        n += 1
                        want = bytearray(length)
                        wrec = []
                        for off in range(0, length, U):
                            a = base + off
                            ln = min(U, length - off)
                            if a >= s and a + ln <= e_excl and (enc or not inclusive):
                                want[off:off + ln] = bytes([0xEE]) * ln
                                wrec.append((a, ln, a if inclusive else None))
                        ok = out.kind == "return" and bytes(out.value) == bytes(want) and recs == wrec
                        if not ok and cex is None:
                            cex = (base, length, (s, end), enc, recs, wrec)
        chk.exhaustive_rules.add("C13.image-loop")
        chk.decide(cex is None, "C13.image-loop", fn.qual,
                   f"exactly the blocks lying completely inside a (valid) key blob are replaced, in place at their own offset" + (", each keyed with its absolute address as counter" if inclusive else "") + f"; all other bytes stay ({n} layouts incl. exact fit, overhang, miss)",
                   f"base {cex[0]}, length {cex[1]}, blob {cex[2]} encrypted={cex[3]}: encrypted blocks {cex[4]}" if cex else "", f"{cex[5]}" if cex else "", A.loc(rp, fn.node))
    # per-blob cipher loops: bytes per iteration = counter advance x counter unit
    ke = ctx.own(OTFAD, "KeyBlob", "encrypt_image")
    t = norm(ke.node)
    ok = "for index in range(0, data_len, 16):" in t and "counter.increment(16)" in t and "Counter(self._get_ctr_nonce(), ctr_value=counter_value, ctr_byteorder_encoding=Endianness.BIG)" in t and "data_2_encr = data[index:index + 16]" in t
    chk.decide(ok, "C13.stride-unit", ke.qual, "OTFAD: 16 bytes per block, byte-address counter advanced by 16, counter starts at the block's address", "", "", A.loc(OTFAD, ke.node))
    chk.decide("if not counter_value: counter_value = self.start_addr" in t.replace("\n", " ").replace("    ", " ").replace("  ", " ") or ("counter_value = self.start_addr" in t), "C13.stride-unit", ke.qual + " default", "without an explicit counter the blob's start address is used", "", "", A.loc(OTFAD, ke.node))
    ic = ctx.own(IEE, "IeeKeyBlob", "encrypt_image_ctr")
    t = norm(ic.node)
    ok = "Counter(nonce, ctr_value=base_address >> 4, ctr_byteorder_encoding=Endianness.BIG)" in t and "counter.increment(self._ENCRYPTION_BLOCK_SIZE >> 4)" in t and "split_data(bytearray(data), self._ENCRYPTION_BLOCK_SIZE)" in t
    chk.decide(ok, "C13.stride-unit", ic.qual, "IEE-CTR: counter counts 16-byte units: starts at address >> 4 and advances by block size >> 4 per block", "", "", A.loc(IEE, ic.node))
    ix = ctx.own(IEE, "IeeKeyBlob", "encrypt_image_xts")
    t = norm(ix.node)
    ok = "split_data(bytearray(data), self._IEE_ENCR_BLOCK_SIZE_XTS)" in t and "tweak = self.calculate_tweak(current_start)" in t and "current_start += len(block)" in t and "current_start = base_address" in t
    chk.decide(ok, "C13.stride-unit", ix.qual, "IEE-XTS: tweak from the running absolute address, advanced by the bytes consumed", "", "", A.loc(IEE, ix.node))
    kb = ctx.cls(IEE, "IeeKeyBlob")
    xs = ctx.prog.fold(kb.consts.get("_IEE_ENCR_BLOCK_SIZE_XTS"), kb.module, kb)
    ct = ctx.own(IEE, "IeeKeyBlob", "calculate_tweak")
    cex = None
    for addr in (0, 0x1000, 0x1FFF, 0x2000, 0x12345000, 0xFFFFF000):
        out = ordereval.Evaluator({"address": addr}, opaque_return=False).run(A.body_of(ct.node))
        want = (addr >> 12).to_bytes(16, "little")
        if not (out.kind == "return" and bytes(out.value) == want) and cex is None:
            cex = (hex(addr), out.value)
    chk.decide(cex is None and xs == 0x1000, "C13.stride-unit", ct.qual, "tweak = sector number (address >> 12) little-endian in 16 bytes; XTS data unit = 4 KiB", f"{cex} unit {xs}", "", A.loc(IEE, ct.node))
    be = ctx.own(BEE, "BeeProtectRegionBlock", "encrypt_block")
    t = norm(be.node)
    chk.decide("ctr_value=start_addr >> 4" in t and "ctr_byteorder_encoding=Endianness.BIG" in t and "aes_ctr_encrypt(key, data, cntr_key.value)" in t, "C13.stride-unit", be.qual, "BEE: counter = address >> 4 (16-byte units), per block", "", "", A.loc(BEE, be.node))


def rule_keyblob_layout(ctx) -> None:
    chk, prog = ctx.chk, ctx.prog
    pd = ctx.own(OTFAD, "KeyBlob", "plain_data")
    kcls = ctx.cls(OTFAD, "KeyBlob")
    fold = lambda e: prog.fold(e, pd.module, kcls)  # noqa: E731
    body = A.body_of(pd.node)
    idx = next((i for i, s in enumerate(body) if isinstance(s, ast.Assign) and norm(s.targets[0]) == "header_crc"), None)
    if idx is None:
        raise AnalysisError("C13.wire: header_crc assignment not found in KeyBlob.plain_data")
    lay = bytelayout.Layout(fold, pd.node)
    lay.run(body[:idx])
    pre = [f for f in lay.env.get("result", []) if f.size != 0]
    sizes = [f.size for f in pre]
    srcs = [f.src for f in pre]
    ok = sizes == [None, None, 4, 4] and srcs[:2] == ["self.key", "self.ctr_init_vector"] and pre[2].src == "self.start_addr" and pre[2].order == "little"
    kc = fold(kcls.consts.get("KEY_SIZE")), fold(kcls.consts.get("CTR_SIZE"))
    chk.decide(ok and kc == (16, 8), "C13.wire", pd.qual + " CRC input", "CRC covers key (16) | counter (8) | start (LE) | end-with-flags (LE) = the first 32 bytes", f"fields before the CRC: {[f.desc() for f in pre]}, key/ctr sizes {kc}", "", A.loc(OTFAD, pd.node))
    crc = norm(body[idx].value)
    chk.decide(crc == "from_crc_algorithm(CrcAlg.CRC32_MPEG).calculate(result).to_bytes(4, Endianness.LITTLE.value)", "C13.wire", pd.qual + " CRC", "CRC-32/MPEG-2, little-endian", crc, "", A.loc(OTFAD, pd.node))
    lay2 = bytelayout.Layout(fold, pd.node)
    res = lay2.run(body)
    tail = [f.desc() for f in [x for x in (res or []) if x.size != 0][4:]]
    total_guard = any(isinstance(s, ast.If) and norm(s.test) == "len(result) != 64" and A.always_raises(s.body) for s in body)
    chk.decide(total_guard and len(tail) >= 3, "C13.wire", pd.qual + " size", "blob is 64 bytes: 32 covered + zero-fill 4 + CRC 4 + 8 + 16", f"{tail}", "", A.loc(OTFAD, pd.node))
    ea = A.single_def(pd.node, "end_addr_with_flags") if False else None
    t = norm(pd.node)
    chk.decide("end_addr_with_flags = (self.end_addr - 1 & ~self._KEY_FLAG_MASK | self.key_flags | self._END_ADDR_MASK)" in t.replace("(self.end_addr - 1)", "self.end_addr - 1") or "self.end_addr - 1 & ~self._KEY_FLAG_MASK | self.key_flags | self._END_ADDR_MASK" in t, "C13.wire", pd.qual + " end word", "end word = (end-1 with low bits forced) | flags", "", "", A.loc(OTFAD, pd.node))
    ex = ctx.own(OTFAD, "KeyBlob", "export")
    t = norm(ex.node)
    ok = "wrap = aes_key_wrap(kek, plaintext[:40])" in t and "align_block(blobs, self._EXPORT_KEY_BLOB_SIZE, padding=0)" in t and "blobs += wrap[i:i + byte_swap_cnt][::-1]" in t
    chk.decide(ok, "C13.wire", ex.qual, "RFC 3394 wrap of the first 40 bytes (5 x 64 bit) with the KEK, optional byte swap in groups, padded to 64", "", "", A.loc(OTFAD, ex.node))
    nn = ctx.own(OTFAD, "KeyBlob", "_get_ctr_nonce")
    cex = None
    civ = bytes(range(1, 9))
    out = ordereval.Evaluator({"self": Obj(ctr_init_vector=civ)}, opaque_return=False).run(A.body_of(nn.node))
    want = civ[:4] + civ[4:] + bytes(a ^ b for a, b in zip(civ[:4], civ[4:])) + bytes(4)
    chk.decide(out.kind == "return" and bytes(out.value) == want, "C13.wire", nn.qual, "nonce = CTR[0:4] | CTR[4:8] | CTR[0:4]^CTR[4:8] | 0 (32-bit block counter)", f"{out.value}", f"{want}", A.loc(OTFAD, nn.node))
    # IEE plain data: CRC over everything before it
    ip = ctx.own(IEE, "IeeKeyBlob", "plain_data")
    t = norm(ip.node)
    order = [t.find(x) for x in ("pack('<II', self.HEADER_TAG, self.KEYBLOB_VERSION)", "self.attributes.export()", "pack('<I', self.page_offset)", "align_block(self.key1, 32)", "align_block(self.key2, 32)", "pack('<III', self.start_addr, self.end_addr, 0)", "calculate(result)", "result += crc")]
    chk.decide(all(o >= 0 for o in order) and order == sorted(order), "C13.wire", ip.qual, "tag, version, attributes, page offset, key1, key2, start, end, 0, then the CRC of all of that", f"{order}", "", A.loc(IEE, ip.node))
    for cn in ("BeeFacRegion", "BeeProtectRegionBlock", "BeeKIB"):
        wire.check_pair(ctx, "C13.wire", BEE, cn, "export", "parse")


def rule_scramble(ctx) -> None:
    chk = ctx.chk
    fn = ctx.own(OTFAD, "Otfad", "encrypt_key_blobs")
    d = A.single_def(fn.node, "scramble_enabled")
    if d is None:
        # refactored: find the condition guarding the scramble set-up
        ifs = [s for s in A.body_of(fn.node) if isinstance(s, ast.If) and "key_scramble" in norm(s.test)]
        d = ifs[0].test if ifs else None
    if d is None:
        raise AnalysisError("C13.scramble: scramble switch not found")
    cex = None
    for mask in (None, 0, 5):
        for al in (None, 0, 0x72):
            try:
                got = bool(ordereval.Evaluator({"key_scramble_mask": mask, "key_scramble_align": al}).ev(d))
            except ordereval.Unsupported as e:
                raise AnalysisError(f"C13.scramble: switch left the fragment: {e}")
            want = mask is not None and al is not None
            if got != want and cex is None:
                cex = (mask, al, got)
    chk.exhaustive_rules.add("C13.scramble")
    chk.decide(cex is None, "C13.scramble", fn.qual + " switch", "scrambling is on exactly when both mask and align are given (0 is a legal value)", f"mask={cex[0]!r} align={cex[1]!r}: enabled={cex[2]}" if cex else "", "is not None for both", A.loc(OTFAD, fn.node))
    t = norm(fn.node)
    loop_cond = [norm(s.test) for s in ast.walk(fn.node) if isinstance(s, ast.If) and any(isinstance(a, ast.For) for a in A.ancestors(s))]
    chk.decide(loop_cond[:1] == ["scramble_enabled"] and "scrambled if scramble_enabled else kek" in t, "C13.scramble", fn.qual + " use", "the per-blob KEK follows the same switch", f"{loop_cond}", "", A.loc(OTFAD, fn.node))
    ok = "long_ix = key_scramble_align >> i * 2 & 3" in t and "scrambled[long_ix * 4 + j] ^= key_scramble_mask_bytes[j]" in t and "for j in range(4):" in t and "scrambled = bytearray(kek)" in t
    chk.decide(ok, "C13.scramble", fn.qual + " kek", "blob i XORs the mask into KEK word (align >> 2i) & 3", "", "", A.loc(OTFAD, fn.node))
    ok = "key_scramble_mask.to_bytes(4, byteorder=Endianness.LITTLE.value)" in t and "if key_scramble_mask >= 1 << 32:" in t and "if key_scramble_align >= 1 << 8:" in t
    chk.decide(ok, "C13.scramble", fn.qual + " ranges", "mask is 32 bit little-endian, align 8 bit", "", "", A.loc(OTFAD, fn.node))


def rule_dispatch_addresses(ctx) -> None:
    """C13.own-address: every blob (image or segment) is encrypted at ITS OWN absolute address; C13.every-engine: every BEE engine is
    offered every block (whether a block falls into an engine's regions is decided by that engine, block by block)."""
    chk = ctx.chk
    for rp, cn in (("spsdk/utils/crypto/iee.py", "IeeNxp"), ("spsdk/utils/crypto/otfad.py", "OtfadNxp")):
        fn = ctx.own(rp, cn, "export_image") if ctx.prog.cls(rp, cn).method("export_image") else ctx.own(rp, cn, "binary_image")
        calls = [c for c in ast.walk(fn.node) if isinstance(c, ast.Call) and norm(c.func) == "self.encrypt_image"]
        if len(calls) < 2:
            raise AnalysisError(f"C13.own-address: encrypt_image call sites of {fn.qual} not found")
        for c in calls:
            data = norm(A.arg_of(c, 0, "image"))
            addr = A.inline_locals(fn.node, A.arg_of(c, 1, "base_addr"))
            obj = data[:-len(".binary")] if data.endswith(".binary") else None
            an = norm(addr)
            ok = obj is not None and f"{obj}.absolute_address" in an and all(f"{o}.absolute_address" not in an for o in ("binary", "segment") if o != obj)
            chk.decide(ok, "C13.own-address", f"{fn.qual} encrypt {data}", f"`{data}` is encrypted at `{an}` - its own absolute address plus the table/key-blob base",
                       f"`{data}` is encrypted at `{an}`, which is not derived from `{obj}.absolute_address` (every segment would be encrypted as if it sat at another blob's address)", "", A.loc(rp, c))
    chk.floor("C13.own-address", 4)
    # BEE: each block is offered to every configured engine
    BEE = "spsdk/image/bee.py"
    fn = ctx.own(BEE, "BeeNxp", "export_image")
    loops = [n for n in ast.walk(fn.node) if isinstance(n, ast.For) and norm(n.iter) == "self.headers"]
    if len(loops) != 1:
        raise AnalysisError("C13.every-engine: loop over the engine headers not found")
    from ..engines.ordereval import Evaluator, Obj, Unsupported
    probs = []
    n = 0
    for inside in ((False, False), (True, False), (False, True), (True, True)):
        offered = []

        def sym(e, inside=inside, offered=offered):
            if isinstance(e, ast.Call) and isinstance(e.func, ast.Attribute) and e.func.attr == "encrypt_block":
                offered.append(holder["ev"].ev(e.func.value).ix)
                return holder["ev"].ev(e.args[1])
            if isinstance(e, ast.Call) and isinstance(e.func, ast.Attribute) and e.func.attr == "is_inside_region":
                return inside[holder["ev"].ev(e.func.value).ix]
            return None
        holder = {}
        ev = Evaluator({"self.headers": (Obj(ix=0), Obj(ix=1)), "base_address": 0x1000, "block": b"x"}, sym)
        holder["ev"] = ev
        try:
            ev.run([loops[0]])
        except Unsupported as u:
            raise AnalysisError(f"C13.every-engine: engine loop left the fragment: {u}")
        n += 1
        if offered != [0, 1]:
            probs.append(f"engine bounding boxes contain the block: {inside} -> block offered to engines {offered}")
    chk.decide(not probs, "C13.every-engine", fn.qual, f"each block is passed to both engines in order, whatever the engines' bounding boxes say ({n} cases); the FAC region test inside encrypt_block decides",
               "; ".join(probs[:2]), "for header in self.headers: if header: block = header.encrypt_block(base_address, block)", A.loc(BEE, loops[0]))


def run(ctx) -> None:
    ctx.chk.explain("C13: address-range predicates decided on order types; Otfad/Iee.encrypt_image evaluated on finite models (scaled data unit, blobs that fit exactly, overhang or miss) "
                    "against the block-containment reference; per-blob cipher loops checked for stride x counter-unit agreement; OTFAD key-blob layout and CRC input by symbolic "
                    "byte layout; nonce and tweak construction evaluated; BEE wire symmetry; the key-scramble switch decided on {None, 0, value}^2.")
    ctx.rule(rule_predicates)
    ctx.rule(rule_image_loops)
    ctx.rule(rule_keyblob_layout)
    ctx.rule(rule_scramble)
    ctx.rule(rule_dispatch_addresses)
    ctx.chk.assumptions = ["AES-CTR/XTS/key-wrap wrappers as decided in C09", "OTFAD end addresses may be inclusive (…3FF) or aligned; IEE end addresses are aligned (exclusive) as documented",
                           "not decided: that the hardware model decrypts (values), byte-swap permutations"]


MANIFEST = {
    "level": "Static decision of the address logic for all images/bases/blob ranges by evaluating the block loops on scaled finite models (complete for the comparisons involved) and "
             "of the layouts/counter units by symbolic extraction. Cipher outputs are not computed.",
    "note": "Trusted: the evaluator, crypto wrappers (C09). Not decided: hardware decryption at value level.",
    "technique": "static analysis: order-type predicates, abstract evaluation of block loops on finite models, symbolic byte layout, struct symmetry",
}
