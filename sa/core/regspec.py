"""Register specification lint shared by C12 (and C01/C14 data rules)."""
from __future__ import annotations

import os
from typing import Any, Dict, Iterator, List, Optional, Tuple

from .devdb import DATA, DevDB


def to_int(v: Any, default: Optional[int] = None) -> Optional[int]:
    if isinstance(v, bool):
        return int(v)
    if isinstance(v, int):
        return v
    if isinstance(v, str):
        s = v.strip().lower().replace("_", "")
        try:
            if s.startswith("0x"):
                return int(s, 16)
            if s.startswith("0b"):
                return int(s, 2)
            if s.startswith("0o"):
                return int(s, 8)
            return int(s.rstrip("ul"), 10)
        except ValueError:
            return default
    return default


class SpecReg:
    def __init__(self, spec: dict):
        self.uid = spec.get("id", "")
        self.name = spec.get("name", "N/A")
        self.offset = to_int(spec.get("offset_int", 0), 0) or 0
        self.width = to_int(spec.get("reg_width", 32), 32) or 32
        self.reset = to_int(spec.get("reset_value_int", 0), 0) or 0
        self.bitfields: List[dict] = []
        off = 0
        for b in spec.get("bitfields", []) or []:
            w = to_int(b.get("width", 0), 0) or 0
            self.bitfields.append({"uid": b.get("id", ""), "name": b.get("name"), "offset": off, "width": w, "reset": to_int(b.get("reset_value_int", 0), 0) or 0,
                                   "values": b.get("values", []) or [], "config_preprocess": b.get("config_preprocess")})
            off += w
        self.bits_used = off

    @property
    def end(self) -> int:
        return self.offset + self.width // 8


def load_spec(db: DevDB, rp: str) -> List[SpecReg]:
    j = db.load_json(rp)
    out = []
    for g in (j.get("groups", []) if isinstance(j, dict) else []):
        for r in g.get("registers", []) or []:
            out.append(SpecReg(r))
    return out


def resolve_spec_path(db: DevDB, dev: str, name: str) -> Optional[str]:
    if name.startswith("../"):
        rp = os.path.normpath(f"{DATA}/devices/{dev}/{name}")
        return rp if db.repo.exists(rp) else None
    return db.data_file(dev, name)


# (feature path to the dict holding 'reg_spec') for the register-backed areas; kind decides which layout rules apply
def iter_areas(db: DevDB) -> Iterator[Tuple[str, str, str, str, dict, str]]:
    """yields (dev, rev, feature, area label, area dict, kind) with kind in memory|fuses|optword|tz"""
    for dev in db.device_names():
        for rev, feats in sorted(db.revisions(dev).items()):
            for feat, f in feats.items():
                if not isinstance(f, dict):
                    continue
                if feat in ("pfr", "ifr"):
                    for sub in ("cmpa", "cfpa", "romcfg", "cmactable"):
                        if isinstance(f.get(sub), dict) and f[sub].get("reg_spec"):
                            yield dev, rev, feat, sub, f[sub], "memory"
                elif feat in ("bca", "fcf") and f.get("reg_spec"):
                    yield dev, rev, feat, feat, f, "memory"
                elif feat == "fcb":
                    for mt, d in (f.get("mem_types") or {}).items():
                        if isinstance(d, dict) and d.get("reg_spec"):
                            yield dev, rev, feat, f"fcb.{mt}", d, "memory"
                elif feat == "xmcd":
                    if isinstance(f.get("header"), dict) and f["header"].get("reg_spec"):
                        yield dev, rev, feat, "xmcd.header", f["header"], "memory"
                    for mt, d in (f.get("mem_types") or {}).items():
                        for var, dd in (d or {}).items():
                            if isinstance(dd, dict) and dd.get("reg_spec"):
                                yield dev, rev, feat, f"xmcd.{mt}.{var}", dd, "memory"
                elif feat == "tz" and f.get("reg_spec"):
                    yield dev, rev, feat, "tz", f, "tz"
                elif feat == "fuses" and f.get("reg_spec"):
                    yield dev, rev, feat, "fuses", f, "fuses"
                elif feat == "memcfg":
                    for per, d in (f.get("peripherals") or {}).items():
                        if isinstance(d, dict) and d.get("reg_spec"):
                            yield dev, rev, feat, f"memcfg.{per}", d, "optword"
                elif feat == "dice" and f.get("reg_spec"):
                    yield dev, rev, feat, "dice", f, "memory"
