"""Small AST query helpers shared by the rule modules."""
from __future__ import annotations

import ast
from typing import Any, Callable, Iterator, List, Optional, Sequence, Tuple


def body_of(fn: ast.AST) -> List[ast.stmt]:
    b = list(fn.body)  # type: ignore[attr-defined]
    if b and isinstance(b[0], ast.Expr) and isinstance(b[0].value, ast.Constant) and isinstance(b[0].value.value, str):
        b = b[1:]
    return b


def loc(mod_relpath: str, node: ast.AST) -> str:
    return f"{mod_relpath}:{getattr(node, 'lineno', '?')}"


def walk_no_nested(node: ast.AST) -> Iterator[ast.AST]:
    """ast.walk that does not descend into nested function/class definitions."""
    stack = [node]
    first = True
    while stack:
        n = stack.pop()
        if not first and isinstance(n, (ast.FunctionDef, ast.AsyncFunctionDef, ast.ClassDef, ast.Lambda)):
            continue
        first = False
        yield n
        stack.extend(reversed(list(ast.iter_child_nodes(n))))


def call_name(c: ast.Call) -> str:
    f = c.func
    if isinstance(f, ast.Name):
        return f.id
    if isinstance(f, ast.Attribute):
        return f.attr
    return ""


def dotted(e: ast.AST) -> Optional[str]:
    parts = []
    while isinstance(e, ast.Attribute):
        parts.append(e.attr)
        e = e.value
    if isinstance(e, ast.Name):
        parts.append(e.id)
        return ".".join(reversed(parts))
    return None


def calls_in(node: ast.AST, name: Optional[str] = None) -> List[ast.Call]:
    return [n for n in walk_no_nested(node) if isinstance(n, ast.Call) and (name is None or call_name(n) == name)]


def returns_in(fn: ast.AST) -> List[ast.Return]:
    return [n for n in walk_no_nested(fn) if isinstance(n, ast.Return)]


def raises_in(node: ast.AST) -> List[ast.Raise]:
    return [n for n in walk_no_nested(node) if isinstance(n, ast.Raise)]


def names_in(e: ast.AST) -> List[str]:
    return [n.id for n in ast.walk(e) if isinstance(n, ast.Name)]


def attrs_in(e: ast.AST) -> List[str]:
    out = []
    for n in ast.walk(e):
        d = dotted(n) if isinstance(n, ast.Attribute) else None
        if d:
            out.append(d)
    return out


def arg_of(call: ast.Call, pos: int, kw: Optional[str] = None) -> Optional[ast.expr]:
    if kw:
        for k in call.keywords:
            if k.arg == kw:
                return k.value
    if pos is not None and 0 <= pos < len(call.args) and not any(isinstance(a, ast.Starred) for a in call.args[: pos + 1]):
        return call.args[pos]
    return None


def parent(n: ast.AST) -> Optional[ast.AST]:
    return getattr(n, "_parent", None)


def ancestors(n: ast.AST) -> Iterator[ast.AST]:
    p = parent(n)
    while p is not None:
        yield p
        p = parent(p)


def enclosing_stmt(n: ast.AST) -> ast.AST:
    cur = n
    while not isinstance(cur, ast.stmt):
        cur = parent(cur)  # type: ignore[assignment]
    return cur


def assigns_to(fn: ast.AST, name: str) -> List[ast.AST]:
    """Assign / AnnAssign / AugAssign statements whose (single) target is Name `name`."""
    out = []
    for n in walk_no_nested(fn):
        if isinstance(n, ast.Assign):
            for t in n.targets:
                elts = t.elts if isinstance(t, (ast.Tuple, ast.List)) else [t]
                for x in elts:
                    if isinstance(x, ast.Starred):
                        x = x.value
                    if isinstance(x, ast.Name) and x.id == name:
                        out.append(n)
        elif isinstance(n, (ast.AnnAssign, ast.AugAssign)) and isinstance(n.target, ast.Name) and n.target.id == name:
            out.append(n)
    return out


def single_def(fn: ast.AST, name: str) -> Optional[ast.expr]:
    """The value expression of the unique plain assignment `name = <expr>` in fn (None if not unique)."""
    a = assigns_to(fn, name)
    if len(a) == 1 and isinstance(a[0], (ast.Assign, ast.AnnAssign)) and a[0].value is not None:
        tgt = a[0].targets[0] if isinstance(a[0], ast.Assign) else a[0].target
        if isinstance(tgt, ast.Name):
            return a[0].value
    return None


def inline_locals(fn: ast.AST, e: ast.expr, depth: int = 4, keep: Sequence[str] = ()) -> ast.expr:
    """Replace local names that have a unique plain definition in fn by that definition (bounded)."""
    if depth == 0:
        return e

    class T(ast.NodeTransformer):
        def visit_Name(self, node: ast.Name) -> ast.AST:
            if isinstance(node.ctx, ast.Load) and node.id not in keep:
                d = single_def(fn, node.id)
                if d is not None and not any(isinstance(x, ast.Name) and x.id == node.id for x in ast.walk(d)):
                    return inline_locals(fn, d, depth - 1, keep)
            return node

    return T().visit(clone(e))


def clone(n: Any) -> Any:
    """Deep copy of an AST node that does not follow the _parent back-pointers."""
    if isinstance(n, ast.AST):
        new = type(n)()
        for f in n._fields:
            if hasattr(n, f):
                setattr(new, f, clone(getattr(n, f)))
        for a in ("lineno", "col_offset", "end_lineno", "end_col_offset"):
            if hasattr(n, a):
                setattr(new, a, getattr(n, a))
        return new
    if isinstance(n, list):
        return [clone(x) for x in n]
    return n


def strip_wrappers(e: ast.expr, names: Sequence[str] = ("bytes", "int", "bytearray")) -> ast.expr:
    while isinstance(e, ast.Call) and isinstance(e.func, ast.Name) and e.func.id in names and len(e.args) == 1 and not e.keywords:
        e = e.args[0]
    return e


def is_terminal(stmts: Sequence[ast.stmt]) -> bool:
    """True if the statement list always ends in raise/return/continue/break."""
    if not stmts:
        return False
    last = stmts[-1]
    if isinstance(last, (ast.Raise, ast.Return, ast.Continue, ast.Break)):
        return True
    if isinstance(last, ast.If):
        return bool(last.orelse) and is_terminal(last.body) and is_terminal(last.orelse)
    if isinstance(last, (ast.With,)):
        return is_terminal(last.body)
    if isinstance(last, ast.Try):
        return (is_terminal(last.body) or (bool(last.orelse) and is_terminal(last.orelse))) and all(is_terminal(h.body) for h in last.handlers) if not last.finalbody else is_terminal(last.finalbody) or ((is_terminal(last.body)) and all(is_terminal(h.body) for h in last.handlers))
    return False


def always_raises(stmts: Sequence[ast.stmt]) -> bool:
    if not stmts:
        return False
    last = stmts[-1]
    if isinstance(last, ast.Raise):
        return True
    if isinstance(last, ast.If):
        return bool(last.orelse) and always_raises(last.body) and always_raises(last.orelse)
    if isinstance(last, ast.With):
        return always_raises(last.body)
    return False


def all_defs(fn: ast.AST, name: str) -> List[ast.expr]:
    out = []
    for a in assigns_to(fn, name):
        if isinstance(a, (ast.Assign, ast.AnnAssign, ast.AugAssign)) and a.value is not None:
            out.append(a.value)
    return out


def inline_locals_multi(fn: ast.AST, e: ast.expr, depth: int = 4, _stack: Sequence[str] = ()) -> ast.expr:
    """Like inline_locals but a local with several definitions is replaced by the tuple of all of them
    (a may-provenance over-approximation: every definition that could reach the use)."""
    if depth == 0:
        return e

    class T(ast.NodeTransformer):
        def visit_Name(self, node: ast.Name) -> ast.AST:
            if isinstance(node.ctx, ast.Load) and node.id not in _stack:
                ds = all_defs(fn, node.id)
                if ds:
                    parts = [inline_locals_multi(fn, d, depth - 1, tuple(_stack) + (node.id,)) for d in ds]
                    return parts[0] if len(parts) == 1 else ast.Tuple(elts=parts, ctx=ast.Load())
            return node

    return T().visit(clone(e))


def subst(e: ast.expr, mapping: "dict[str, ast.expr]") -> ast.expr:
    """Replace loaded Names by expressions (on a clone)."""
    class T(ast.NodeTransformer):
        def visit_Name(self, node: ast.Name) -> ast.AST:
            if isinstance(node.ctx, ast.Load) and node.id in mapping:
                return clone(mapping[node.id])
            return node
    return T().visit(clone(e))


def bind_args(fn_node: ast.AST, call: ast.Call, skip_self: bool = False) -> "Optional[dict[str, ast.expr]]":
    """Bind call arguments to the parameters of fn_node (defaults included). None when *args/**kwargs are involved."""
    a = fn_node.args  # type: ignore[attr-defined]
    if a.vararg or a.kwarg or any(isinstance(x, ast.Starred) for x in call.args) or any(k.arg is None for k in call.keywords):
        return None
    pos = [x.arg for x in a.posonlyargs + a.args]
    if skip_self and pos:
        pos = pos[1:]
    out: "dict[str, ast.expr]" = {}
    if len(call.args) > len(pos):
        return None
    for name, v in zip(pos, call.args):
        out[name] = v
    allnames = pos + [x.arg for x in a.kwonlyargs]
    for k in call.keywords:
        if k.arg not in allnames or k.arg in out:
            return None
        out[k.arg] = k.value
    defaults = dict(zip([x.arg for x in (a.posonlyargs + a.args)][len(a.posonlyargs + a.args) - len(a.defaults):], a.defaults))
    for x, d in zip(a.kwonlyargs, a.kw_defaults):
        if d is not None:
            defaults[x.arg] = d
    for n in allnames:
        if n not in out:
            if n in defaults:
                out[n] = defaults[n]
            else:
                return None
    return out


def summary_expr(fn_node: ast.AST) -> Optional[ast.expr]:
    """For a helper whose body is assignments followed by one return: the returned expression with locals inlined."""
    b = body_of(fn_node)
    rets = returns_in(fn_node)
    # exception-translation wrapper: `try: <body> except X: raise Y` is its body
    if len(b) == 1 and isinstance(b[0], ast.Try) and not b[0].orelse and not b[0].finalbody and all(always_raises(h.body) for h in b[0].handlers):
        b = list(b[0].body)
    if len(rets) != 1 or not b or b[-1] is not rets[0] or rets[0].value is None:
        return None
    for st in b[:-1]:
        if not isinstance(st, (ast.Assign, ast.AnnAssign)):
            return None
    return inline_locals(fn_node, rets[0].value, depth=6)


def paths(body: Sequence[ast.stmt], limit: int = 4000) -> List[Tuple[List[ast.stmt], str]]:
    """Enumerate the structured control-flow paths of a statement list: (simple statements in order, ending) with ending in
    {'return', 'raise', 'fall', 'break', 'continue'}. Loops are taken 0 or 1 times, try bodies either complete or jump to a handler
    from their start (a sound over-approximation for 'may reach' questions on small functions)."""
    def seq(stmts: Sequence[ast.stmt]) -> List[Tuple[List[ast.stmt], str]]:
        acc: List[Tuple[List[ast.stmt], str]] = [([], "fall")]
        for st in stmts:
            new: List[Tuple[List[ast.stmt], str]] = []
            for pre, end in acc:
                if end != "fall":
                    new.append((pre, end))
                    continue
                for mid, e2 in one(st):
                    new.append((pre + mid, e2))
                    if len(new) > limit:
                        raise OverflowError("too many paths")
            acc = new
        return acc

    def one(st: ast.stmt) -> List[Tuple[List[ast.stmt], str]]:
        if isinstance(st, ast.Return):
            return [([st], "return")]
        if isinstance(st, ast.Raise):
            return [([st], "raise")]
        if isinstance(st, ast.Break):
            return [([st], "break")]
        if isinstance(st, ast.Continue):
            return [([st], "continue")]
        if isinstance(st, ast.If):
            return seq(st.body) + seq(st.orelse)
        if isinstance(st, (ast.For, ast.While, ast.AsyncFor)):
            out = [([], "fall")]
            for p, e in seq(st.body):
                out.append((p, "fall" if e in ("fall", "break", "continue") else e))
            return [(p + q, e2) if e == "fall" else (p, e) for p, e in out for q, e2 in (seq(st.orelse) if e == "fall" and st.orelse else [([], e)])]
        if isinstance(st, (ast.With, ast.AsyncWith)):
            return seq(st.body)
        if isinstance(st, ast.Try):
            out = []
            for p, e in seq(st.body):
                if e == "fall" and st.orelse:
                    out += [(p + q, e2) for q, e2 in seq(st.orelse)]
                else:
                    out.append((p, e))
            for h in st.handlers:
                out += seq(h.body)
            if st.finalbody:
                out = [(p + q, e2 if e == "fall" else e) for p, e in out for q, e2 in seq(st.finalbody)]
            return out
        return [([st], "fall")]
    return seq(list(body))


# ------------------------------------------------------------------ guarded paths (shape-independent view of a function's decisions)
_CANON_CMP = {ast.NotEq: (ast.Eq, False), ast.NotIn: (ast.In, False), ast.IsNot: (ast.Is, False), ast.Eq: (ast.Eq, True), ast.In: (ast.In, True),
              ast.Is: (ast.Is, True), ast.Lt: (ast.Lt, True), ast.LtE: (ast.LtE, True), ast.Gt: (ast.LtE, False), ast.GtE: (ast.Lt, False)}


def literals(test: ast.expr, pol: bool = True) -> List[Tuple[str, bool]]:
    """The conjunction of literals that is known when `test` evaluates to `pol`: `a and b` true gives both, `a or b` false gives both
    negated, `not`, `!=`, `not in`, `is not`, `>`, `>=` are folded into the polarity.  What cannot be split is one literal."""
    t = test
    while isinstance(t, ast.UnaryOp) and isinstance(t.op, ast.Not):
        t, pol = t.operand, not pol
    if isinstance(t, ast.BoolOp) and ((isinstance(t.op, ast.And) and pol) or (isinstance(t.op, ast.Or) and not pol)):
        out: List[Tuple[str, bool]] = []
        for v in t.values:
            out += literals(v, pol)
        return out
    if isinstance(t, ast.BoolOp):
        # the unsplittable side: canonical text is the disjunction of the literal forms that make it `pol`
        parts = sorted("&".join(f"{'' if p else '!'}{x}" for x, p in literals(v, pol)) for v in t.values)
        return [(" | ".join(parts), True)]
    if isinstance(t, ast.Compare) and len(t.ops) == 1 and type(t.ops[0]) in _CANON_CMP:
        op, keep = _CANON_CMP[type(t.ops[0])]
        c = ast.Compare(left=t.left, ops=[op()], comparators=t.comparators)
        return [(ast.unparse(c), pol if keep else not pol)]
    return [(ast.unparse(t), pol)]


class GPath:
    """One structured path: the literals assumed on the way, the simple statements executed, how it ends."""
    __slots__ = ("conds", "stmts", "end")

    def __init__(self, conds, stmts, end):
        self.conds, self.stmts, self.end = conds, stmts, end

    def assumes(self, text: str, pol: bool = True) -> bool:
        return (text, pol) in self.conds

    def mentions(self, text: str) -> bool:
        return any(c == text for c, _ in self.conds)

    @property
    def last(self) -> Optional[ast.stmt]:
        return self.stmts[-1] if self.stmts else None

    def has(self, text: str) -> bool:
        return any(ast.unparse(s) == text for s in self.stmts)

    def __repr__(self):
        return f"<{' & '.join(('' if p else '!') + c for c, p in self.conds)} :: {len(self.stmts)} stmts -> {self.end}>"


def gpaths(body_or_fn, limit: int = 4000) -> List[GPath]:
    """paths() with the branch literals recorded.  Loops are taken 0 or 1 times (the loop test is not recorded), a try body either
    completes or enters a handler from its start.  A path that assumes both `c` and `not c` is infeasible and dropped."""
    body = body_of(body_or_fn) if isinstance(body_or_fn, (ast.FunctionDef, ast.AsyncFunctionDef)) else list(body_or_fn)

    def feasible(conds):
        s = set(conds)
        return not any((c, not p) in s for c, p in s)

    def seq(stmts, pre: GPath) -> List[GPath]:
        acc = [pre]
        for st in stmts:
            new: List[GPath] = []
            for p in acc:
                if p.end != "fall":
                    new.append(p)
                    continue
                new += one(st, p)
                if len(new) > limit:
                    raise OverflowError("too many paths")
            acc = new
        return acc

    def one(st, p: GPath) -> List[GPath]:
        if isinstance(st, (ast.Return, ast.Raise, ast.Break, ast.Continue)):
            return [GPath(p.conds, p.stmts + [st], type(st).__name__.lower())]
        if isinstance(st, ast.If):
            out = []
            for pol, arm in ((True, st.body), (False, st.orelse)):
                c2 = p.conds + [l for l in literals(st.test, pol) if l not in p.conds]
                if feasible(c2):
                    out += seq(arm, GPath(c2, p.stmts, "fall"))
            return out
        if isinstance(st, (ast.For, ast.While, ast.AsyncFor)):
            out = [GPath(p.conds, p.stmts, "fall")]
            for q in seq(st.body, GPath(p.conds, p.stmts, "fall")):
                out.append(GPath(q.conds, q.stmts, "fall" if q.end in ("fall", "break", "continue") else q.end))
            if st.orelse:
                out = [r for q in out for r in (seq(st.orelse, q) if q.end == "fall" else [q])]
            return out
        if isinstance(st, (ast.With, ast.AsyncWith)):
            return seq(st.body, p)
        if isinstance(st, ast.Try):
            out = []
            for q in seq(st.body, p):
                out += seq(st.orelse, q) if (q.end == "fall" and st.orelse) else [q]
            for h in st.handlers:
                out += seq(h.body, GPath(p.conds, p.stmts, "fall"))
            if st.finalbody:
                out = [GPath(r.conds, r.stmts, r.end if q.end == "fall" else q.end) for q in out for r in seq(st.finalbody, GPath(q.conds, q.stmts, "fall"))]
            return out
        return [GPath(p.conds, p.stmts + [st], "fall")]
    return seq(body, GPath([], [], "fall"))


def lit(text: str) -> List[Tuple[str, bool]]:
    """The canonical literal(s) of a condition written as source text: lit("n > 1") == [("n <= 1", False)]."""
    return literals(ast.parse(text, mode="eval").body, True)


def paths_through(fn, pred) -> List[GPath]:
    """Guarded paths that execute a simple statement satisfying pred(stmt_text, stmt)."""
    return [q for q in gpaths(fn) if any(pred(ast.unparse(s), s) for s in q.stmts)]


def always_under(fn, pred, cond: str) -> bool:
    """Every path executing a statement that satisfies `pred` assumes `cond` (and there is such a path)."""
    ps = paths_through(fn, pred)
    want = lit(cond)
    return bool(ps) and all(all(w in q.conds for w in want) for q in ps)
