"""Small AST query helpers shared by the rule modules."""
from __future__ import annotations

import ast
from typing import Any, Callable, Iterator, List, Optional, Sequence, Tuple


def body_of(fn: ast.AST) -> List[ast.stmt]:
    b = list(fn.body)  # type: ignore[attr-defined]
    if b and isinstance(b[0], ast.Expr) and isinstance(b[0].value, ast.Constant) and isinstance(b[0].value.value, str):
        b = b[1:]
    return b


def loc(mod_relpath: str, node: ast.AST) -> str:
    return f"{mod_relpath}:{getattr(node, 'lineno', '?')}"


def walk_no_nested(node: ast.AST) -> Iterator[ast.AST]:
    """ast.walk that does not descend into nested function/class definitions."""
    stack = [node]
    first = True
    while stack:
        n = stack.pop()
        if not first and isinstance(n, (ast.FunctionDef, ast.AsyncFunctionDef, ast.ClassDef, ast.Lambda)):
            continue
        first = False
        yield n
        stack.extend(reversed(list(ast.iter_child_nodes(n))))


def call_name(c: ast.Call) -> str:
    f = c.func
    if isinstance(f, ast.Name):
        return f.id
    if isinstance(f, ast.Attribute):
        return f.attr
    return ""


def dotted(e: ast.AST) -> Optional[str]:
    parts = []
    while isinstance(e, ast.Attribute):
        parts.append(e.attr)
        e = e.value
    if isinstance(e, ast.Name):
        parts.append(e.id)
        return ".".join(reversed(parts))
    return None


def calls_in(node: ast.AST, name: Optional[str] = None) -> List[ast.Call]:
    return [n for n in walk_no_nested(node) if isinstance(n, ast.Call) and (name is None or call_name(n) == name)]


def returns_in(fn: ast.AST) -> List[ast.Return]:
    return [n for n in walk_no_nested(fn) if isinstance(n, ast.Return)]


def raises_in(node: ast.AST) -> List[ast.Raise]:
    return [n for n in walk_no_nested(node) if isinstance(n, ast.Raise)]


def names_in(e: ast.AST) -> List[str]:
    return [n.id for n in ast.walk(e) if isinstance(n, ast.Name)]


def attrs_in(e: ast.AST) -> List[str]:
    out = []
    for n in ast.walk(e):
        d = dotted(n) if isinstance(n, ast.Attribute) else None
        if d:
            out.append(d)
    return out


def arg_of(call: ast.Call, pos: int, kw: Optional[str] = None) -> Optional[ast.expr]:
    if kw:
        for k in call.keywords:
            if k.arg == kw:
                return k.value
    if pos is not None and 0 <= pos < len(call.args) and not any(isinstance(a, ast.Starred) for a in call.args[: pos + 1]):
        return call.args[pos]
    return None


def parent(n: ast.AST) -> Optional[ast.AST]:
    return getattr(n, "_parent", None)


def ancestors(n: ast.AST) -> Iterator[ast.AST]:
    p = parent(n)
    while p is not None:
        yield p
        p = parent(p)


def enclosing_stmt(n: ast.AST) -> ast.AST:
    cur = n
    while not isinstance(cur, ast.stmt):
        cur = parent(cur)  # type: ignore[assignment]
    return cur


def assigns_to(fn: ast.AST, name: str) -> List[ast.AST]:
    """Assign / AnnAssign / AugAssign statements whose (single) target is Name `name`."""
    out = []
    for n in walk_no_nested(fn):
        if isinstance(n, ast.Assign):
            for t in n.targets:
                elts = t.elts if isinstance(t, (ast.Tuple, ast.List)) else [t]
                for x in elts:
                    if isinstance(x, ast.Starred):
                        x = x.value
                    if isinstance(x, ast.Name) and x.id == name:
                        out.append(n)
        elif isinstance(n, (ast.AnnAssign, ast.AugAssign)) and isinstance(n.target, ast.Name) and n.target.id == name:
            out.append(n)
    return out


def single_def(fn: ast.AST, name: str) -> Optional[ast.expr]:
    """The value expression of the unique plain assignment `name = <expr>` in fn (None if not unique)."""
    a = assigns_to(fn, name)
    if len(a) == 1 and isinstance(a[0], (ast.Assign, ast.AnnAssign)) and a[0].value is not None:
        tgt = a[0].targets[0] if isinstance(a[0], ast.Assign) else a[0].target
        if isinstance(tgt, ast.Name):
            return a[0].value
    return None


def inline_locals(fn: ast.AST, e: ast.expr, depth: int = 4, keep: Sequence[str] = ()) -> ast.expr:
    """Replace local names that have a unique plain definition in fn by that definition (bounded)."""
    if depth == 0:
        return e

    class T(ast.NodeTransformer):
        def visit_Name(self, node: ast.Name) -> ast.AST:
            if isinstance(node.ctx, ast.Load) and node.id not in keep:
                d = single_def(fn, node.id)
                if d is not None and not any(isinstance(x, ast.Name) and x.id == node.id for x in ast.walk(d)):
                    return inline_locals(fn, d, depth - 1, keep)
            return node

    return T().visit(clone(e))


def clone(n: Any) -> Any:
    """Deep copy of an AST node that does not follow the _parent back-pointers."""
    if isinstance(n, ast.AST):
        new = type(n)()
        for f in n._fields:
            if hasattr(n, f):
                setattr(new, f, clone(getattr(n, f)))
        for a in ("lineno", "col_offset", "end_lineno", "end_col_offset"):
            if hasattr(n, a):
                setattr(new, a, getattr(n, a))
        return new
    if isinstance(n, list):
        return [clone(x) for x in n]
    return n


def strip_wrappers(e: ast.expr, names: Sequence[str] = ("bytes", "int", "bytearray")) -> ast.expr:
    while isinstance(e, ast.Call) and isinstance(e.func, ast.Name) and e.func.id in names and len(e.args) == 1 and not e.keywords:
        e = e.args[0]
    return e


def is_terminal(stmts: Sequence[ast.stmt]) -> bool:
    """True if the statement list always ends in raise/return/continue/break."""
    if not stmts:
        return False
    last = stmts[-1]
    if isinstance(last, (ast.Raise, ast.Return, ast.Continue, ast.Break)):
        return True
    if isinstance(last, ast.If):
        return bool(last.orelse) and is_terminal(last.body) and is_terminal(last.orelse)
    if isinstance(last, (ast.With,)):
        return is_terminal(last.body)
    if isinstance(last, ast.Try):
        return (is_terminal(last.body) or (bool(last.orelse) and is_terminal(last.orelse))) and all(is_terminal(h.body) for h in last.handlers) if not last.finalbody else is_terminal(last.finalbody) or ((is_terminal(last.body)) and all(is_terminal(h.body) for h in last.handlers))
    return False


def always_raises(stmts: Sequence[ast.stmt]) -> bool:
    if not stmts:
        return False
    last = stmts[-1]
    if isinstance(last, ast.Raise):
        return True
    if isinstance(last, ast.If):
        return bool(last.orelse) and always_raises(last.body) and always_raises(last.orelse)
    if isinstance(last, ast.With):
        return always_raises(last.body)
    return False


def all_defs(fn: ast.AST, name: str) -> List[ast.expr]:
    out = []
    for a in assigns_to(fn, name):
        if isinstance(a, (ast.Assign, ast.AnnAssign, ast.AugAssign)) and a.value is not None:
            out.append(a.value)
    return out


def inline_locals_multi(fn: ast.AST, e: ast.expr, depth: int = 4, _stack: Sequence[str] = ()) -> ast.expr:
    """Like inline_locals but a local with several definitions is replaced by the tuple of all of them
    (a may-provenance over-approximation: every definition that could reach the use)."""
    if depth == 0:
        return e

    class T(ast.NodeTransformer):
        def visit_Name(self, node: ast.Name) -> ast.AST:
            if isinstance(node.ctx, ast.Load) and node.id not in _stack:
                ds = all_defs(fn, node.id)
                if ds:
                    parts = [inline_locals_multi(fn, d, depth - 1, tuple(_stack) + (node.id,)) for d in ds]
                    return parts[0] if len(parts) == 1 else ast.Tuple(elts=parts, ctx=ast.Load())
            return node

    return T().visit(clone(e))


def subst(e: ast.expr, mapping: "dict[str, ast.expr]") -> ast.expr:
    """Replace loaded Names by expressions (on a clone)."""
    class T(ast.NodeTransformer):
        def visit_Name(self, node: ast.Name) -> ast.AST:
            if isinstance(node.ctx, ast.Load) and node.id in mapping:
                return clone(mapping[node.id])
            return node
    return T().visit(clone(e))


def bind_args(fn_node: ast.AST, call: ast.Call, skip_self: bool = False) -> "Optional[dict[str, ast.expr]]":
    """Bind call arguments to the parameters of fn_node (defaults included). None when *args/**kwargs are involved."""
    a = fn_node.args  # type: ignore[attr-defined]
    if a.vararg or a.kwarg or any(isinstance(x, ast.Starred) for x in call.args) or any(k.arg is None for k in call.keywords):
        return None
    pos = [x.arg for x in a.posonlyargs + a.args]
    if skip_self and pos:
        pos = pos[1:]
    out: "dict[str, ast.expr]" = {}
    if len(call.args) > len(pos):
        return None
    for name, v in zip(pos, call.args):
        out[name] = v
    allnames = pos + [x.arg for x in a.kwonlyargs]
    for k in call.keywords:
        if k.arg not in allnames or k.arg in out:
            return None
        out[k.arg] = k.value
    defaults = dict(zip([x.arg for x in (a.posonlyargs + a.args)][len(a.posonlyargs + a.args) - len(a.defaults):], a.defaults))
    for x, d in zip(a.kwonlyargs, a.kw_defaults):
        if d is not None:
            defaults[x.arg] = d
    for n in allnames:
        if n not in out:
            if n in defaults:
                out[n] = defaults[n]
            else:
                return None
    return out


def summary_expr(fn_node: ast.AST) -> Optional[ast.expr]:
    """For a helper whose body is assignments followed by one return: the returned expression with locals inlined."""
    b = body_of(fn_node)
    rets = returns_in(fn_node)
    # exception-translation wrapper: `try: <body> except X: raise Y` is its body
    if len(b) == 1 and isinstance(b[0], ast.Try) and not b[0].orelse and not b[0].finalbody and all(always_raises(h.body) for h in b[0].handlers):
        b = list(b[0].body)
    if len(rets) != 1 or not b or b[-1] is not rets[0] or rets[0].value is None:
        return None
    for st in b[:-1]:
        if not isinstance(st, (ast.Assign, ast.AnnAssign)):
            return None
    return inline_locals(fn_node, rets[0].value, depth=6)


def paths(body: Sequence[ast.stmt], limit: int = 4000) -> List[Tuple[List[ast.stmt], str]]:
    """Enumerate the structured control-flow paths of a statement list: (simple statements in order, ending) with ending in
    {'return', 'raise', 'fall', 'break', 'continue'}. Loops are taken 0 or 1 times, try bodies either complete or jump to a handler
    from their start (a sound over-approximation for 'may reach' questions on small functions)."""
    def seq(stmts: Sequence[ast.stmt]) -> List[Tuple[List[ast.stmt], str]]:
        acc: List[Tuple[List[ast.stmt], str]] = [([], "fall")]
        for st in stmts:
            new: List[Tuple[List[ast.stmt], str]] = []
            for pre, end in acc:
                if end != "fall":
                    new.append((pre, end))
                    continue
                for mid, e2 in one(st):
                    new.append((pre + mid, e2))
                    if len(new) > limit:
                        raise OverflowError("too many paths")
            acc = new
        return acc

    def one(st: ast.stmt) -> List[Tuple[List[ast.stmt], str]]:
        if isinstance(st, ast.Return):
            return [([st], "return")]
        if isinstance(st, ast.Raise):
            return [([st], "raise")]
        if isinstance(st, ast.Break):
            return [([st], "break")]
        if isinstance(st, ast.Continue):
            return [([st], "continue")]
        if isinstance(st, ast.If):
            return seq(st.body) + seq(st.orelse)
        if isinstance(st, (ast.For, ast.While, ast.AsyncFor)):
            out = [([], "fall")]
            for p, e in seq(st.body):
                out.append((p, "fall" if e in ("fall", "break", "continue") else e))
            return [(p + q, e2) if e == "fall" else (p, e) for p, e in out for q, e2 in (seq(st.orelse) if e == "fall" and st.orelse else [([], e)])]
        if isinstance(st, (ast.With, ast.AsyncWith)):
            return seq(st.body)
        if isinstance(st, ast.Try):
            out = []
            for p, e in seq(st.body):
                if e == "fall" and st.orelse:
                    out += [(p + q, e2) for q, e2 in seq(st.orelse)]
                else:
                    out.append((p, e))
            for h in st.handlers:
                out += seq(h.body)
            if st.finalbody:
                out = [(p + q, e2 if e == "fall" else e) for p, e in out for q, e2 in seq(st.finalbody)]
            return out
        return [([st], "fall")]
    return seq(list(body))


# ------------------------------------------------------------------ guarded paths (shape-independent view of a function's decisions)
_CANON_CMP = {ast.NotEq: (ast.Eq, False), ast.NotIn: (ast.In, False), ast.IsNot: (ast.Is, False), ast.Eq: (ast.Eq, True), ast.In: (ast.In, True),
              ast.Is: (ast.Is, True), ast.Lt: (ast.Lt, True), ast.LtE: (ast.LtE, True), ast.Gt: (ast.LtE, False), ast.GtE: (ast.Lt, False)}


def literals(test: ast.expr, pol: bool = True) -> List[Tuple[str, bool]]:
    """The conjunction of literals that is known when `test` evaluates to `pol`: `a and b` true gives both, `a or b` false gives both
    negated, `not`, `!=`, `not in`, `is not`, `>`, `>=` are folded into the polarity.  What cannot be split is one literal."""
    t = test
    while isinstance(t, ast.UnaryOp) and isinstance(t.op, ast.Not):
        t, pol = t.operand, not pol
    if isinstance(t, ast.BoolOp) and ((isinstance(t.op, ast.And) and pol) or (isinstance(t.op, ast.Or) and not pol)):
        out: List[Tuple[str, bool]] = []
        for v in t.values:
            out += literals(v, pol)
        return out
    if isinstance(t, ast.BoolOp):
        # the unsplittable side: canonical text is the disjunction of the literal forms that make it `pol`
        parts = sorted(" ∧ ".join(f"{'' if p else '¬'}{x}" for x, p in literals(v, pol)) for v in t.values)
        return [(" ∨ ".join(parts), True)]
    if isinstance(t, ast.Compare) and len(t.ops) == 1 and type(t.ops[0]) in _CANON_CMP:
        op, keep = _CANON_CMP[type(t.ops[0])]
        c = ast.Compare(left=t.left, ops=[op()], comparators=t.comparators)
        return [(ast.unparse(c), pol if keep else not pol)]
    return [(ast.unparse(t), pol)]


def settle_disjunctions(conds: List[Tuple[str, bool]]) -> Optional[List[Tuple[str, bool]]]:
    """Drop a disjunctive literal that the atomic literals of the path already decide; None when they refute it (infeasible path)."""
    atoms = {(c, p) for c, p in conds if " ∨ " not in c}
    out = []
    for c, p in conds:
        if " ∨ " not in c or not p:
            out.append((c, p))
            continue
        alive = False
        implied = False
        for d in c.split(" ∨ "):
            lits = [(x[1:], False) if x.startswith("¬") else (x, True) for x in d.split(" ∧ ")]
            if all(l in atoms for l in lits):
                implied = True
            if not any((x, not q) in atoms for x, q in lits):
                alive = True
        if implied:
            continue
        if not alive:
            return None
        out.append((c, p))
    return out


class GPath:
    """One structured path: the literals assumed on the way, the simple statements executed, how it ends."""
    __slots__ = ("conds", "stmts", "end")

    def __init__(self, conds, stmts, end):
        self.conds, self.stmts, self.end = conds, stmts, end

    def assumes(self, text: str, pol: bool = True) -> bool:
        return (text, pol) in self.conds

    def mentions(self, text: str) -> bool:
        return any(c == text for c, _ in self.conds)

    @property
    def last(self) -> Optional[ast.stmt]:
        return self.stmts[-1] if self.stmts else None

    def has(self, text: str) -> bool:
        return any(ast.unparse(s) == text for s in self.stmts)

    def __repr__(self):
        return f"<{' & '.join(('' if p else '!') + '(' + c + ')' if ' ∨ ' in c else ('' if p else '!') + c for c, p in self.conds)} :: {len(self.stmts)} stmts -> {self.end}>"


def gpaths(body_or_fn, limit: int = 4000) -> List[GPath]:
    """paths() with the branch literals recorded.  Loops are taken 0 or 1 times (the loop test is not recorded), a try body either
    completes or enters a handler from its start.  A path that assumes both `c` and `not c` is infeasible and dropped."""
    body = body_of(body_or_fn) if isinstance(body_or_fn, (ast.FunctionDef, ast.AsyncFunctionDef)) else list(body_or_fn)

    def feasible(conds):
        s = set(conds)
        return not any((c, not p) in s for c, p in s)

    def seq(stmts, pre: GPath) -> List[GPath]:
        acc = [pre]
        for st in stmts:
            new: List[GPath] = []
            for p in acc:
                if p.end != "fall":
                    new.append(p)
                    continue
                new += one(st, p)
                if len(new) > limit:
                    raise OverflowError("too many paths")
            acc = new
        return acc

    def one(st, p: GPath) -> List[GPath]:
        if isinstance(st, (ast.Return, ast.Raise, ast.Break, ast.Continue)):
            return [GPath(p.conds, p.stmts + [st], type(st).__name__.lower())]
        if isinstance(st, ast.If):
            out = []
            for pol, arm in ((True, st.body), (False, st.orelse)):
                c2 = p.conds + [l for l in literals(st.test, pol) if l not in p.conds]
                if feasible(c2):
                    out += seq(arm, GPath(c2, p.stmts, "fall"))
            return out
        if isinstance(st, (ast.For, ast.While, ast.AsyncFor)):
            out = [GPath(p.conds, p.stmts, "fall")]
            for q in seq(st.body, GPath(p.conds, p.stmts, "fall")):
                out.append(GPath(q.conds, q.stmts, "fall" if q.end in ("fall", "break", "continue") else q.end))
            if st.orelse:
                out = [r for q in out for r in (seq(st.orelse, q) if q.end == "fall" else [q])]
            return out
        if isinstance(st, (ast.With, ast.AsyncWith)):
            return seq(st.body, p)
        if isinstance(st, ast.Try):
            out = []
            for q in seq(st.body, p):
                out += seq(st.orelse, q) if (q.end == "fall" and st.orelse) else [q]
            for h in st.handlers:
                out += seq(h.body, GPath(p.conds, p.stmts, "fall"))
            if st.finalbody:
                out = [GPath(r.conds, r.stmts, r.end if q.end == "fall" else q.end) for q in out for r in seq(st.finalbody, GPath(q.conds, q.stmts, "fall"))]
            return out
        return [GPath(p.conds, p.stmts + [st], "fall")]
    out = []
    for q in seq(body, GPath([], [], "fall")):
        c = settle_disjunctions(q.conds)
        if c is not None:
            q.conds = c
            out.append(q)
    return out


def lit(text: str) -> List[Tuple[str, bool]]:
    """The canonical literal(s) of a condition written as source text: lit("n > 1") == [("n <= 1", False)]."""
    return literals(ast.parse(text, mode="eval").body, True)


def paths_through(fn, pred) -> List[GPath]:
    """Guarded paths that execute a simple statement satisfying pred(stmt_text, stmt)."""
    return [q for q in gpaths(fn) if any(pred(ast.unparse(s), s) for s in q.stmts)]


def always_under(fn, pred, cond: str) -> bool:
    """Every path executing a statement that satisfies `pred` assumes `cond` (and there is such a path)."""
    ps = paths_through(fn, pred)
    want = lit(cond)
    return bool(ps) and all(all(w in q.conds for w in want) for q in ps)


def const_bytes(e: ast.expr) -> Optional[bytes]:
    """The bytes a closed expression denotes: b"..", bytes(n), bytes([..]), struct.pack(fmt, ints..), int.to_bytes, * and + of those."""
    import struct as _struct
    try:
        if isinstance(e, ast.Constant):
            return e.value if isinstance(e.value, bytes) else None
        if isinstance(e, ast.BinOp) and isinstance(e.op, ast.Add):
            a, b = const_bytes(e.left), const_bytes(e.right)
            return a + b if a is not None and b is not None else None
        if isinstance(e, ast.BinOp) and isinstance(e.op, ast.Mult):
            for x, y in ((e.left, e.right), (e.right, e.left)):
                a = const_bytes(x)
                if a is not None and isinstance(y, ast.Constant) and isinstance(y.value, int) and 0 <= y.value <= 4096:
                    return a * y.value
            return None
        if isinstance(e, ast.Call) and not e.keywords:
            f = ast.unparse(e.func)
            if f in ("bytes", "bytearray") and len(e.args) == 1:
                a = e.args[0]
                if isinstance(a, ast.Constant) and isinstance(a.value, int) and 0 <= a.value <= 4096:
                    return bytes(a.value)
                if isinstance(a, (ast.List, ast.Tuple)) and all(isinstance(x, ast.Constant) and isinstance(x.value, int) for x in a.elts):
                    return bytes(x.value for x in a.elts)
                return const_bytes(a)
            if f in ("struct.pack", "pack") and e.args and isinstance(e.args[0], ast.Constant) and isinstance(e.args[0].value, str) \
                    and all(isinstance(x, ast.Constant) and isinstance(x.value, (int, bytes)) for x in e.args[1:]):
                return _struct.pack(e.args[0].value, *[x.value for x in e.args[1:]])
    except Exception:  # noqa: BLE001  (malformed format / out of range: not a constant we understand)
        return None
    return None


def reduction(fn) -> Optional[dict]:
    """A function that only folds a sequence: `acc = i; for v in it: [if f:] acc += e; return acc` and `return sum(e for v in it [if f])`
    (also b"".join / "".join for bytes and str accumulators) have the same summary {init, elem, iter, filt}, with the loop variable
    renamed to `_v`."""
    body = [s for s in body_of(fn) if not isinstance(s, ast.Pass)]

    def ren(e, var):
        class R(ast.NodeTransformer):
            def visit_Name(self, n):  # noqa: N802
                return ast.copy_location(ast.Name(id="_v", ctx=n.ctx), n) if n.id == var else n
        return ast.unparse(R().visit(clone(e)))
    if len(body) == 1 and isinstance(body[0], ast.Return) and isinstance(body[0].value, ast.Call):
        c = body[0].value
        f = ast.unparse(c.func)
        if c.args and isinstance(c.args[0], (ast.GeneratorExp, ast.ListComp)) and len(c.args[0].generators) == 1 and isinstance(c.args[0].generators[0].target, ast.Name):
            g = c.args[0].generators[0]
            var = g.target.id
            init = None
            if f == "sum":
                init = ast.unparse(c.args[1]) if len(c.args) > 1 else "0"
            elif f in ("b''.join", "bytes().join"):
                init = "b''"
            elif f == "''.join":
                init = "''"
            if init is not None:
                return {"init": init, "elem": ren(c.args[0].elt, var), "iter": ast.unparse(g.iter), "filt": sorted(ren(x, var) for x in g.ifs)}
    if len(body) == 3 and isinstance(body[0], ast.Assign) and len(body[0].targets) == 1 and isinstance(body[0].targets[0], ast.Name) \
            and isinstance(body[1], ast.For) and not body[1].orelse and isinstance(body[1].target, ast.Name) \
            and isinstance(body[2], ast.Return) and isinstance(body[2].value, ast.Name) and body[2].value.id == body[0].targets[0].id:
        acc, var = body[0].targets[0].id, body[1].target.id
        inner, filt = body[1].body, []
        while len(inner) == 1 and isinstance(inner[0], ast.If) and not inner[0].orelse:
            filt.append(ren(inner[0].test, var))
            inner = inner[0].body
        if len(inner) == 1 and isinstance(inner[0], ast.AugAssign) and isinstance(inner[0].op, ast.Add) and isinstance(inner[0].target, ast.Name) and inner[0].target.id == acc:
            init = ast.unparse(body[0].value)
            init = {"bytes()": "b''", "str()": "''"}.get(init, init)
            return {"init": init, "elem": ren(inner[0].value, var), "iter": ast.unparse(body[1].iter), "filt": sorted(filt)}
    return None


# ------------------------------------------------------------------ symbolic paths: guarded paths with locals expressed in the inputs
_MAX_EXPR = 600


def _size(e: ast.AST) -> int:
    return sum(1 for _ in ast.walk(e))


class _EnvSubst(ast.NodeTransformer):
    def __init__(self, env):
        self.env = env

    def visit_Name(self, n):  # noqa: N802
        if isinstance(n.ctx, ast.Load) and n.id in self.env:
            v = self.env[n.id]
            return clone(v) if not (isinstance(v, ast.Name) and v.id == n.id) else n
        return n

    def _scoped(self, n):
        # names bound by a comprehension / lambda shadow the environment
        bound = {x.id for g in getattr(n, "generators", []) for x in ast.walk(g.target) if isinstance(x, ast.Name)}
        if isinstance(n, ast.Lambda):
            bound = {a.arg for a in n.args.args + n.args.kwonlyargs}
        saved = {k: self.env[k] for k in bound if k in self.env}
        for k in saved:
            del self.env[k]
        self.generic_visit(n)
        self.env.update(saved)
        return n

    visit_ListComp = visit_SetComp = visit_DictComp = visit_GeneratorExp = visit_Lambda = _scoped  # noqa: N815


def _sub(e, env):
    if e is None:
        return None
    return _EnvSubst(env).visit(clone(e))


def _first_ifexp(st: ast.AST) -> Optional[ast.IfExp]:
    todo = [st]
    while todo:
        n = todo.pop(0)
        if isinstance(n, ast.IfExp):
            return n
        if isinstance(n, (ast.Lambda, ast.ListComp, ast.SetComp, ast.DictComp, ast.GeneratorExp)):
            continue
        todo += list(ast.iter_child_nodes(n))
    return None


def _first_dict_dispatch(st: ast.AST) -> Optional[ast.Subscript]:
    todo = [st]
    while todo:
        n = todo.pop(0)
        if isinstance(n, ast.Subscript) and isinstance(n.ctx, ast.Load) and isinstance(n.value, ast.Dict) and 0 < len(n.value.keys) <= 8 \
                and all(k is not None for k in n.value.keys) and not isinstance(n.slice, ast.Slice):
            return n
        if isinstance(n, (ast.Lambda, ast.ListComp, ast.SetComp, ast.DictComp, ast.GeneratorExp)):
            continue
        todo += list(ast.iter_child_nodes(n))
    return None


def _replace_node(root: ast.AST, old: ast.AST, new: ast.AST) -> None:
    for node in ast.walk(root):
        for f, v in ast.iter_fields(node):
            if v is old:
                setattr(node, f, new)
                return
            if isinstance(v, list):
                for k, x in enumerate(v):
                    if x is old:
                        v[k] = new
                        return


class SPath(GPath):
    """A guarded path whose literals and statements are expressed in the function's inputs: single assignments to locals are
    substituted forward along the path (a local that is mutated in place, assigned in a loop or bound by with/except stays a name),
    conditional expressions are split into paths.  `sstmts` are the substituted clones of `stmts`."""
    __slots__ = ("env", "sstmts")

    def __init__(self, conds, stmts, end, env, sstmts):
        super().__init__(conds, stmts, end)
        self.env, self.sstmts = env, sstmts

    @property
    def value(self) -> Optional[ast.expr]:
        """what a returning path returns / a raising path raises, in the inputs"""
        s = self.sstmts[-1] if self.sstmts else None
        if isinstance(s, ast.Return):
            return s.value
        if isinstance(s, ast.Raise):
            return s.exc
        return None

    @property
    def vtext(self) -> str:
        v = self.value
        return ast.unparse(v) if v is not None else ""

    def calls(self, name: Optional[str] = None) -> List[ast.Call]:
        return [c for s in self.sstmts for c in ast.walk(s) if isinstance(c, ast.Call) and (name is None or call_name(c) == name)]

    def sees(self, text: str) -> bool:
        return any(ast.unparse(s) == text for s in self.sstmts)


def spaths(body_or_fn, limit: int = 4000) -> List[SPath]:
    body = body_of(body_or_fn) if isinstance(body_or_fn, (ast.FunctionDef, ast.AsyncFunctionDef)) else list(body_or_fn)

    def feasible(conds):
        s = set(conds)
        return not any((c, not p) in s for c, p in s)

    def stored(nodes) -> Set[str]:
        return {n.id for r in nodes for n in ast.walk(r) if isinstance(n, ast.Name) and isinstance(n.ctx, (ast.Store, ast.Del))}

    def opaque(env, names):
        env = dict(env)
        for k in names:
            env[k] = ast.Name(id=k, ctx=ast.Load())
        # a value that mentions a re-bound name no longer denotes what it did: freeze those too
        return env

    def fork(p: SPath, test: ast.expr, pol: bool) -> Optional[SPath]:
        t = _sub(test, p.env)
        c2 = p.conds + [l for l in literals(t, pol) if l not in p.conds]
        return SPath(c2, p.stmts, "fall", p.env, p.sstmts) if feasible(c2) else None

    def seq(stmts, pre: SPath) -> List[SPath]:
        acc = [pre]
        for st in stmts:
            new: List[SPath] = []
            for p in acc:
                if p.end != "fall":
                    new.append(p)
                    continue
                new += one(st, p)
                if len(new) > limit:
                    raise OverflowError("too many paths")
            acc = new
        return acc

    def simple(st, p: SPath, depth: int = 0) -> List[SPath]:
        dd = _first_dict_dispatch(st) if depth < 4 else None
        if dd is not None:
            # `{K1: V1, K2: V2}[key]` is the decision `V1 if key == K1 else V2 if key == K2 else <KeyError>`
            out = []
            q0: Optional[SPath] = p
            keys = list(zip(dd.value.keys, dd.value.values))
            for i, (k, v) in enumerate(keys):
                if q0 is None:
                    break
                test = ast.Compare(left=dd.slice, ops=[ast.Eq()], comparators=[k])
                q = fork(q0, test, True)
                if q is not None:
                    st2 = clone(st)
                    dd2 = _first_dict_dispatch(st2)
                    if st2 is not dd2:
                        _replace_node(st2, dd2, dd2.value.values[i])
                        out += simple(st2, q, depth + 1)
                q0 = fork(q0, test, False)
            if q0 is not None:
                r = ast.copy_location(ast.Raise(exc=ast.Call(func=ast.Name(id="KeyError", ctx=ast.Load()), args=[clone(dd.slice)], keywords=[]), cause=None), st)
                ast.fix_missing_locations(r)
                out.append(SPath(q0.conds, q0.stmts + [st], "raise", q0.env, q0.sstmts + [_sub(r, q0.env)]))
            return out
        ie = _first_ifexp(st) if depth < 4 else None
        if ie is not None:
            out = []
            for pol, arm in ((True, ie.body), (False, ie.orelse)):
                q = fork(p, ie.test, pol)
                if q is None:
                    continue
                st2 = clone(st)
                # locate the same IfExp in the clone by position in a parallel walk
                ie2 = _first_ifexp(st2)
                if st2 is ie2:
                    continue
                _replace_node(st2, ie2, ie2.body if pol else ie2.orelse)
                out += simple(st2, q, depth + 1)
            return out
        sst = _sub(st, p.env)
        env = p.env
        if isinstance(st, ast.Assign) and len(st.targets) >= 1 and all(isinstance(t, ast.Name) for t in st.targets):
            v = sst.value
            env = dict(env)
            for t in st.targets:  # a = b = value
                env[t.id] = v if _size(v) <= _MAX_EXPR else ast.Name(id=t.id, ctx=ast.Load())
        elif isinstance(st, ast.Assign) and len(st.targets) == 1 and isinstance(st.targets[0], ast.Tuple) and isinstance(sst.value, ast.Tuple) \
                and len(st.targets[0].elts) == len(sst.value.elts) and all(isinstance(t, ast.Name) for t in st.targets[0].elts):
            env = dict(env)
            for t, v in zip(st.targets[0].elts, sst.value.elts):
                env[t.id] = v
        elif isinstance(st, ast.Assign) and len(st.targets) == 1 and isinstance(st.targets[0], ast.Tuple) and all(isinstance(t, ast.Name) for t in st.targets[0].elts) \
                and isinstance(sst.value, (ast.Subscript, ast.Attribute, ast.Name)) and _size(sst.value) <= 60:
            # unpacking a stored sequence (a table row): the i-th name is the i-th element
            env = dict(env)
            for i, t in enumerate(st.targets[0].elts):
                env[t.id] = ast.Subscript(value=clone(sst.value), slice=ast.Constant(value=i), ctx=ast.Load())
        elif isinstance(st, ast.AugAssign) and isinstance(st.target, ast.Name):
            env = dict(env)
            cur = env.get(st.target.id, ast.Name(id=st.target.id, ctx=ast.Load()))
            v = ast.BinOp(left=clone(cur), op=st.op, right=sst.value)
            env[st.target.id] = v if _size(v) <= _MAX_EXPR else ast.Name(id=st.target.id, ctx=ast.Load())
        else:
            # in-place mutation of a local (item/attribute store, a method called on it as a statement) or any other binding
            mut = set()
            for tg in (st.targets if isinstance(st, ast.Assign) else [st.target] if isinstance(st, (ast.AugAssign, ast.AnnAssign)) else []):
                b = tg
                while isinstance(b, (ast.Subscript, ast.Attribute, ast.Starred)):
                    b = b.value
                if isinstance(b, ast.Name) and not isinstance(tg, ast.Name):
                    mut.add(b.id)
            if isinstance(st, ast.Expr) and isinstance(st.value, ast.Call) and isinstance(st.value.func, ast.Attribute):
                b = st.value.func.value
                while isinstance(b, (ast.Subscript, ast.Attribute)):
                    b = b.value
                if isinstance(b, ast.Name):
                    mut.add(b.id)
            mut |= stored([st])
            mut = {m for m in mut if m in env or m in stored([st])}
            if mut:
                # the statement is recorded with the receiver kept by name, so that the mutation stays visible
                keep = {k: v for k, v in p.env.items() if k not in mut}
                sst = _sub(st, keep)
                env = opaque(env, mut)
        end = {"Return": "return", "Raise": "raise", "Break": "break", "Continue": "continue"}.get(type(st).__name__, "fall")
        return [SPath(p.conds, p.stmts + [st], end, env, p.sstmts + [sst])]

    def one(st, p: SPath) -> List[SPath]:
        if isinstance(st, ast.If):
            out = []
            for pol, arm in ((True, st.body), (False, st.orelse)):
                q = fork(p, st.test, pol)
                if q is not None:
                    out += seq(arm, q)
            return out
        if isinstance(st, (ast.For, ast.While, ast.AsyncFor)):
            names = stored([st])
            out = [SPath(p.conds, p.stmts, "fall", p.env, p.sstmts)]
            inner = SPath(p.conds, p.stmts, "fall", opaque(p.env, names), p.sstmts)
            for q in seq(st.body, inner):
                out.append(SPath(q.conds, q.stmts, "fall" if q.end in ("fall", "break", "continue") else q.end, opaque(q.env, names) if q.end in ("fall", "break", "continue") else q.env, q.sstmts))
            if st.orelse:
                out = [r for q in out for r in (seq(st.orelse, q) if q.end == "fall" else [q])]
            return out
        if isinstance(st, (ast.With, ast.AsyncWith)):
            names = stored([i.optional_vars for i in st.items if i.optional_vars is not None])
            return seq(st.body, SPath(p.conds, p.stmts, "fall", opaque(p.env, names), p.sstmts))
        if isinstance(st, ast.Try):
            out = []
            for q in seq(st.body, p):
                out += seq(st.orelse, q) if (q.end == "fall" and st.orelse) else [q]
            names = stored(st.body) | {h.name for h in st.handlers if h.name}
            for h in st.handlers:
                out += seq(h.body, SPath(p.conds, p.stmts, "fall", opaque(p.env, names), p.sstmts))
            if st.finalbody:
                out = [SPath(r.conds, r.stmts, r.end if q.end == "fall" else q.end, r.env, r.sstmts) for q in out for r in seq(st.finalbody, SPath(q.conds, q.stmts, "fall", q.env, q.sstmts))]
            return out
        if isinstance(st, (ast.FunctionDef, ast.AsyncFunctionDef, ast.ClassDef)):
            return [SPath(p.conds, p.stmts, "fall", opaque(p.env, {st.name}), p.sstmts)]
        return simple(st, p)
    out = []
    for q in seq(body, SPath([], [], "fall", {}, [])):
        c = settle_disjunctions(q.conds)
        if c is not None:
            q.conds = c
            out.append(q)
    return out


def eval_order(nodes: Sequence[ast.AST]) -> Iterator[ast.AST]:
    """Sub-expressions of simple statements in (approximate) evaluation order: operands before the operation, left to right,
    the value of an assignment before its target, a conditional expression's test first."""
    def rec(n: ast.AST) -> Iterator[ast.AST]:
        if isinstance(n, (ast.Lambda, ast.FunctionDef, ast.AsyncFunctionDef, ast.ClassDef)):
            return
        if isinstance(n, (ast.Assign, ast.AnnAssign, ast.AugAssign)):
            if getattr(n, "value", None) is not None:
                yield from rec(n.value)
            for t in (n.targets if isinstance(n, ast.Assign) else [n.target]):
                yield from rec(t)
            yield n
            return
        if isinstance(n, ast.IfExp):
            yield from rec(n.test)
            yield from rec(n.body)
            yield from rec(n.orelse)
            yield n
            return
        for c in ast.iter_child_nodes(n):
            yield from rec(c)
        yield n
    for x in nodes:
        yield from rec(x)


def flat_concat(e: ast.expr) -> List[ast.expr]:
    """Operands of a `+` chain, empty bytes literals dropped."""
    if isinstance(e, ast.BinOp) and isinstance(e.op, ast.Add):
        return flat_concat(e.left) + flat_concat(e.right)
    if const_bytes(e) == b"" or ast.unparse(e) in ("bytes()", "bytearray()"):
        return []
    return [e]
