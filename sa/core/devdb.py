"""The device database as source: loads spsdk/data/devices/*/database.yaml + common/database_defaults.yaml through the
Repo (overlay aware), merged the way spsdk.utils.database.Device.load does (defaults <- device <- revision; alias devices).
Pure data loading (PyYAML/json): no spsdk code is imported."""
from __future__ import annotations

import copy
import json
import os
from typing import Any, Dict, Iterator, List, Optional, Tuple

import yaml

from .loader import AnalysisError, Repo

try:
    _Loader = yaml.CSafeLoader
except AttributeError:  # pragma: no cover
    _Loader = yaml.SafeLoader

DATA = "spsdk/data"


def deep_update(d: dict, u: dict) -> dict:
    for k, v in u.items():
        if isinstance(v, dict):
            d[k] = deep_update(d.get(k, {}) if isinstance(d.get(k), dict) else {}, v)
        else:
            d[k] = v
    return d


class DevDB:
    def __init__(self, repo: Repo):
        self.repo = repo
        self.raw: Dict[str, dict] = {}
        self.files: Dict[str, str] = {}
        base = os.path.join(repo.root, DATA, "devices")
        names = set()
        if os.path.isdir(base):
            names = {d for d in os.listdir(base) if os.path.isfile(os.path.join(base, d, "database.yaml"))}
        for rp in repo.overlays:
            if rp.startswith(DATA + "/devices/") and rp.endswith("/database.yaml"):
                names.add(rp.split("/")[-2])
        if len(names) < 50:
            raise AnalysisError(f"device database: only {len(names)} devices found")
        self.defaults = self._yaml(f"{DATA}/common/database_defaults.yaml")
        for n in sorted(names):
            self.raw[n] = self._yaml(f"{DATA}/devices/{n}/database.yaml")
        self._merged: Dict[str, Dict[str, dict]] = {}

    def _yaml(self, rp: str) -> Any:
        try:
            txt = self.repo.read(rp)
            self.files[rp] = str(len(txt))
            return yaml.load(txt, Loader=_Loader)
        except yaml.YAMLError as e:
            raise AnalysisError(f"cannot parse {rp}: {e}")

    def device_names(self) -> List[str]:
        return sorted(self.raw)

    def revisions(self, dev: str) -> Dict[str, dict]:
        """revision name -> merged features dict"""
        if dev in self._merged:
            return self._merged[dev]
        cfg = self.raw[dev]
        out: Dict[str, dict] = {}
        if cfg.get("alias"):
            base = self.revisions(cfg["alias"])
            out = {r: copy.deepcopy(f) for r, f in base.items()}
            if cfg.get("features"):
                for r in out:
                    deep_update(out[r], copy.deepcopy(cfg["features"]))
            for rn, upd in (cfg.get("revisions") or {}).items():
                upd = upd or {}
                if rn not in out:
                    al = upd.get("alias")
                    if not al or al not in out:
                        continue
                    out[rn] = copy.deepcopy(out[al])
                if upd.get("features"):
                    deep_update(out[rn], copy.deepcopy(upd["features"]))
        else:
            feats = copy.deepcopy(cfg.get("features") or {})
            dflt = copy.deepcopy(self.defaults.get("features") or {})
            for fn in list(feats):
                merged = deep_update(dflt.get(fn, {}), feats[fn] or {})
                feats[fn] = merged
            for rn, upd in (cfg.get("revisions") or {}).items():
                f = copy.deepcopy(feats)
                if upd and upd.get("features"):
                    deep_update(f, copy.deepcopy(upd["features"]))
                out[rn] = f
        self._merged[dev] = out
        return out

    def latest(self, dev: str) -> str:
        cfg = self.raw[dev]
        if cfg.get("latest"):
            return cfg["latest"]
        if cfg.get("alias"):
            return self.latest(cfg["alias"])
        return sorted(self.revisions(dev))[-1]

    def iter_features(self, feature: str) -> Iterator[Tuple[str, str, dict]]:
        for dev in self.device_names():
            for rev, feats in sorted(self.revisions(dev).items()):
                if feature in feats and isinstance(feats[feature], dict):
                    yield dev, rev, feats[feature]

    def data_file(self, dev: str, name: str) -> Optional[str]:
        """relpath of a device data file (falls back to the alias device's folder)."""
        rp = f"{DATA}/devices/{dev}/{name}"
        if self.repo.exists(rp):
            return rp
        al = self.raw[dev].get("alias")
        if al:
            return self.data_file(al, name)
        return None

    def load_json(self, rp: str) -> Any:
        try:
            return json.loads(self.repo.read(rp))
        except json.JSONDecodeError as e:
            raise AnalysisError(f"cannot parse {rp}: {e}")
