"""Obligations, evidence, VIOLATION / KNOWN-FINDING lines and exit codes."""
from __future__ import annotations

import ast
import hashlib
import json
import os
import re
import time
from typing import Any, Dict, List, Optional

from .loader import AnalysisError

VERIF = os.path.dirname(os.path.dirname(os.path.dirname(os.path.abspath(__file__))))


def norm(node_or_text: Any) -> str:
    """Normalised statement text (ast.unparse: no comments/formatting/line numbers)."""
    if isinstance(node_or_text, ast.AST):
        s = ast.unparse(node_or_text)
    else:
        s = str(node_or_text)
    return re.sub(r"\s+", " ", s).strip()


class Finding:
    def __init__(self, prop: str, rule: str, construct: str, what: str, detail: str, loc: str):
        self.prop, self.rule, self.construct, self.what, self.detail, self.loc = prop, rule, construct, what, detail, loc

    @property
    def key(self) -> str:
        return f"{self.rule}|{self.construct}|{self.what}"

    def as_dict(self) -> Dict[str, Any]:
        return {"property": self.prop, "rule": self.rule, "construct": self.construct,
                "what": self.what, "detail": self.detail, "location": self.loc, "key": self.key}


class Check:
    def __init__(self, prop: str, tier: str = "quick", root: str = "/repo"):
        self.prop = prop
        self.tier = tier
        self.root = root
        self.t0 = time.time()
        self.obligations: List[Dict[str, Any]] = []
        self.findings: List[Finding] = []
        self.reports: List[str] = []  # reported-not-armed notes
        self.rule_counts: Dict[str, int] = {}
        self.rule_nontrivial: Dict[str, int] = {}
        self.floors: Dict[str, int] = {}
        self.units: Dict[str, str] = {}
        self.functions_analysed: set = set()
        self.exhaustive_rules: set = set()
        self.extra: Dict[str, Any] = {}
        self.explanations: List[str] = []
        self.analysis_errors: List[str] = []
        self.assumptions: List[str] = []

    # -------------------------------------------------------------- recording
    def floor(self, rule: str, n: int) -> None:
        self.floors[rule] = n

    def analysed(self, *quals: str) -> None:
        self.functions_analysed.update(quals)

    def ok(self, rule: str, construct: str, fact: str, nontrivial: bool = True) -> None:
        fact = fact if isinstance(fact, str) else str(fact)
        self.obligations.append({"rule": rule, "construct": construct, "verdict": "discharged", "fact": fact})
        self.rule_counts[rule] = self.rule_counts.get(rule, 0) + 1
        if nontrivial:
            self.rule_nontrivial[rule] = self.rule_nontrivial.get(rule, 0) + 1

    def bad(self, rule: str, construct: str, what: str, detail: str = "", loc: str = "") -> None:
        """what: normalised offending construct (no line numbers) – part of the finding key."""
        what = what if isinstance(what, str) else str(what)
        detail = detail if isinstance(detail, str) else str(detail)
        self.obligations.append({"rule": rule, "construct": construct, "verdict": "VIOLATED", "fact": what, "detail": detail, "location": loc})
        self.rule_counts[rule] = self.rule_counts.get(rule, 0) + 1
        self.rule_nontrivial[rule] = self.rule_nontrivial.get(rule, 0) + 1
        self.findings.append(Finding(self.prop, rule, construct, what, detail, loc))

    def decide(self, cond: bool, rule: str, construct: str, fact: str, what: str = "", detail: str = "", loc: str = "") -> bool:
        if cond:
            self.ok(rule, construct, fact)
        else:
            self.bad(rule, construct, what or fact, detail, loc)
        return cond

    def report(self, note: str) -> None:
        self.reports.append(note)

    def explain(self, text: str) -> None:
        self.explanations.append(text)

    # ----------------------------------------------------------------- finish
    def finish(self, known: List[Dict[str, Any]], write: bool = True) -> int:
        # floors: a rule that matched fewer instances than confirmed by hand is an analysis error
        for rule, n in self.floors.items():
            got = self.rule_counts.get(rule, 0)
            if got < n:
                self.analysis_errors.append(f"rule {rule} matched {got} instances, floor is {n} (vacuous pass refused)")
        known_keys = {k["key"]: k for k in known if k.get("property") == self.prop and k.get("status") == "known"}
        lines: List[str] = []
        new: List[Finding] = []
        seen_known: List[str] = []
        for f in self.findings:
            if f.key in known_keys:
                if f.key not in seen_known:
                    seen_known.append(f.key)
                    lines.append(f"KNOWN-FINDING: property={self.prop} {f.rule} {f.construct}: {f.what}")
            else:
                new.append(f)
        replay_dir = os.path.join(VERIF, "evidence", "replay")
        for f in new:
            h = hashlib.sha256(f.key.encode()).hexdigest()[:12]
            path = os.path.join(replay_dir, f"{self.prop}-{h}.json")
            if write:
                os.makedirs(replay_dir, exist_ok=True)
                with open(path, "w") as fh:
                    json.dump(f.as_dict(), fh, indent=1)
            lines.append(f"VIOLATION property={self.prop} replay={path}")
            lines.append(f"  rule={f.rule} construct={f.construct} at {f.loc}")
            lines.append(f"  offending: {f.what}")
            if f.detail:
                lines.append(f"  expected: {f.detail}")
        n_ob = len(self.obligations)
        n_dis = sum(1 for o in self.obligations if o["verdict"] == "discharged")
        distinct = len({(o["rule"], o["construct"], o["fact"]) for o in self.obligations})
        nontriv = len({(o["rule"], o["construct"]) for o in self.obligations})
        samples = []
        per_rule_seen: Dict[str, int] = {}
        for o in self.obligations:
            if per_rule_seen.get(o["rule"], 0) < 2 or o["verdict"] != "discharged":
                samples.append(o)
                per_rule_seen[o["rule"]] = per_rule_seen.get(o["rule"], 0) + 1
        ev = {
            "property_id": self.prop,
            "tier": self.tier,
            "seed": int(os.environ.get("VERIF_SEED", "0") or 0),
            "level": "other",
            "coverage": {
                "explanation": " ".join(self.explanations) or "static structural analysis of /repo's working tree (ast); see DESIGN.md",
                "obligations": n_ob,
                "discharged": n_dis,
                "evaluations": n_ob,
                "distinct_nontrivial": nontriv,
                "rule": "one obligation per (rule, construct) instance matched in the current source; distinct = distinct (rule, construct) pairs; every obligation needed at least one resolved fact (folded constant, resolved class/method, extracted expression) - trivial ones are not emitted",
                "distinct_obligation_facts": distinct,
                "samples": samples[:60],
                "rules": {r: {"instances": c, "floor": self.floors.get(r)} for r, c in sorted(self.rule_counts.items())},
                "exhaustive": bool(self.exhaustive_rules),
                "exhaustive_rules": sorted(self.exhaustive_rules),
                "units_parsed": len(self.units),
                "units": dict(sorted(self.units.items())),
                "functions_analysed": len(self.functions_analysed),
                "functions": sorted(self.functions_analysed)[:200],
                "reported_not_armed": self.reports[:100],
                "findings": [f.as_dict() for f in self.findings],
                "known_findings_seen": seen_known,
                "analysis_errors": self.analysis_errors,
                "root": self.root,
                "checker_cmd": f"./check {self.prop} --tier {self.tier}",
                "trusted_base": ["CPython ast", "struct format semantics", "this checker's rule tables (sa/props)"],
                **self.extra,
            },
            "assumptions": self.assumptions or ["a passing run means the listed structural clauses hold; behaviour not covered by a clause is not decided (DESIGN.md)"],
            "wall_s": round(time.time() - self.t0, 3),
            "violations": len(new),
        }
        if write:
            os.makedirs(os.path.join(VERIF, "evidence"), exist_ok=True)
            with open(os.path.join(VERIF, "evidence", f"{self.prop}.json"), "w") as fh:
                json.dump(ev, fh, indent=1, default=str)
        self.lines = lines
        self.evidence = ev
        return 1 if new else 0
