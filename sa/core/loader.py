"""Source model loader: parses /repo's *current working tree* with the stdlib ast module.

Nothing from spsdk is imported or executed. Overlays (path -> source text) let the
self-validation battery analyse an edited variant of one file without touching the disk.
"""
from __future__ import annotations

import ast
import copy
import hashlib
import os
from typing import Dict, Iterator, Optional


class AnalysisError(Exception):
    """An anchor a rule needs has vanished / is outside the analysed fragment (exit 2)."""


class _Normalise(ast.NodeTransformer):
    """Removes statements that cannot affect any property (logging calls) and unifies annotated local assignments with
    plain ones, so that rules are insensitive to added/removed log lines and to type annotations on locals."""

    @staticmethod
    def _pure(e) -> bool:
        if isinstance(e, (ast.Name, ast.Constant)):
            return True
        if isinstance(e, ast.Attribute):
            return _Normalise._pure(e.value)
        if isinstance(e, (ast.Tuple, ast.List)):
            return all(_Normalise._pure(x) for x in e.elts)
        if isinstance(e, ast.Dict):
            return all(k is not None and _Normalise._pure(k) for k in e.keys) and all(_Normalise._pure(v) for v in e.values)
        return False

    def _unroll_for(self, st, later):
        """`for v in (a, b): S(v)` over a short literal sequence of side-effect-free expressions is S(a); S(b)."""
        if not (isinstance(st, ast.For) and isinstance(st.target, ast.Name) and not st.orelse and isinstance(st.iter, (ast.Tuple, ast.List))
                and len(st.iter.elts) <= 6 and all(self._pure(x) for x in st.iter.elts)):
            return None
        var = st.target.id
        for b in st.body:
            for n in ast.walk(b):
                if isinstance(n, (ast.Break, ast.Continue, ast.Lambda, ast.FunctionDef, ast.AsyncFunctionDef, ast.ClassDef, ast.Return, ast.NamedExpr)):
                    return None
                if isinstance(n, ast.Name) and n.id == var and not isinstance(n.ctx, ast.Load):
                    return None
        if any(isinstance(n, ast.Name) and n.id == var for x in later for n in ast.walk(x)):
            return None

        class R(ast.NodeTransformer):
            def __init__(self, val):
                self.val = val

            def visit_Name(self, n):  # noqa: N802
                return copy.deepcopy(self.val) if n.id == var else n
        out = []
        for x in st.iter.elts:
            out += [R(x).visit(copy.deepcopy(b)) for b in st.body]
        return out or [ast.copy_location(ast.Pass(), st)]

    def _body(self, body):
        out = []
        unrolled = []
        for i, st in enumerate(body):
            u = self._unroll_for(st, body[i + 1:])
            unrolled += u if u is not None else [st]
        for st in unrolled:
            if isinstance(st, ast.Expr) and isinstance(st.value, ast.Call):
                f = st.value.func
                if isinstance(f, ast.Attribute) and isinstance(f.value, ast.Name) and f.value.id in ("logger", "logging", "log", "_logger", "LOGGER"):
                    continue
            out.append(st)
        if not out:
            p = ast.Pass()
            if body:
                ast.copy_location(p, body[0])
            out = [p]
        return out

    _TERM = (ast.Return, ast.Raise, ast.Continue, ast.Break)

    @staticmethod
    def _weight(b):
        return sum(1 for st in b for _ in ast.walk(st))

    def _guard_first(self, test, a, b):
        """Both arms `a` (taken when test holds) and `b` leave the block: decide, independently of how the code was written
        (`if c: A` + B, `if c: A else: B`, `if not c: B else: A`), which arm is the guard.  True = keep `a` first."""
        ra, rb = len(a) == 1 and isinstance(a[0], ast.Raise), len(b) == 1 and isinstance(b[0], ast.Raise)
        if ra != rb:
            return ra  # a lone `raise` is the guard
        wa, wb = self._weight(a), self._weight(b)
        if wa != wb:
            return wa < wb  # the lighter arm is the guard
        return not (isinstance(test, ast.UnaryOp) and isinstance(test.op, ast.Not))

    def _flatten_else(self, body):
        """Block canonical form around a terminal branch.  `if c: <...return/raise/continue/break> else: B` followed by R is
        `if c: <...>` followed by B+R (no else after a terminal branch); when B+R leaves the block too, the guard arm is chosen by
        _guard_first, so the early-exit form, the if/else form and the inverted form of one decision load identically."""
        out = []
        for i, st in enumerate(body):
            if isinstance(st, ast.If) and st.body and isinstance(st.body[-1], self._TERM):
                rest = list(st.orelse) + list(body[i + 1:])
                if rest and isinstance(rest[-1], self._TERM) and not self._guard_first(st.test, st.body, rest):
                    g = ast.copy_location(ast.If(test=self._negate(st.test), body=rest, orelse=[]), st)
                    g.body = self._flatten_else(g.body)
                    out.append(g)
                    out += self._flatten_else(st.body)
                    return out
                if st.orelse:
                    st.orelse = []
                    out.append(st)
                    out += self._flatten_else(rest)
                    return out
            out.append(st)
        return out

    def generic_visit(self, node):
        super().generic_visit(node)
        for fld in ("body", "orelse", "finalbody"):
            b = getattr(node, fld, None)
            if isinstance(b, list) and b and isinstance(b[0], ast.stmt):
                nb = self._flatten_else(self._body(b))
                # `else: pass` left behind by removed log lines is dropped
                if fld == "orelse" and all(isinstance(x, ast.Pass) for x in nb):
                    nb = []
                setattr(node, fld, nb)
        return node

    def visit_FunctionDef(self, node):
        self._depth = getattr(self, "_depth", 0) + 1
        self.generic_visit(node)
        self._depth -= 1
        return node

    visit_AsyncFunctionDef = visit_FunctionDef

    _NEG = {ast.Eq: ast.NotEq, ast.NotEq: ast.Eq, ast.Lt: ast.GtE, ast.GtE: ast.Lt, ast.Gt: ast.LtE, ast.LtE: ast.Gt,
            ast.Is: ast.IsNot, ast.IsNot: ast.Is, ast.In: ast.NotIn, ast.NotIn: ast.In}

    def visit_UnaryOp(self, node):
        self.generic_visit(node)
        # not (a == b) -> a != b ; not not x -> x (inside conditions only the truth value matters; kept conservative: comparisons only)
        if isinstance(node.op, ast.Not) and isinstance(node.operand, ast.Compare) and len(node.operand.ops) == 1 and type(node.operand.ops[0]) in self._NEG:
            c = node.operand
            return ast.copy_location(ast.Compare(left=c.left, ops=[self._NEG[type(c.ops[0])]()], comparators=c.comparators), node)
        return node

    def _negate(self, t: ast.expr) -> ast.expr:
        if isinstance(t, ast.UnaryOp) and isinstance(t.op, ast.Not):
            return t.operand
        if isinstance(t, ast.Compare) and len(t.ops) == 1 and type(t.ops[0]) in self._NEG:
            return ast.copy_location(ast.Compare(left=t.left, ops=[self._NEG[type(t.ops[0])]()], comparators=t.comparators), t)
        return ast.copy_location(ast.UnaryOp(op=ast.Not(), operand=t), t)

    def visit_If(self, node):
        """Canonical two-armed `if` (elif chains are left alone):
        exactly one arm ends in return/raise/continue/break -> that arm comes first (the else is flattened away afterwards);
        otherwise a negated test is made positive by swapping the arms."""
        if node.orelse and not (len(node.orelse) == 1 and isinstance(node.orelse[0], ast.If)):
            bt, ot = isinstance(node.body[-1], self._TERM), isinstance(node.orelse[-1], self._TERM)
            swap = False
            if ot and not bt:
                swap = True
            elif not bt and not ot and isinstance(node.test, ast.UnaryOp) and isinstance(node.test.op, ast.Not):
                swap = True
            if swap:
                node = ast.copy_location(ast.If(test=self._negate(node.test), body=node.orelse, orelse=node.body), node)
        self.generic_visit(node)
        return node

    def visit_Call(self, node):
        self.generic_visit(node)
        # f(a, *(b, c)) with a literal sequence is f(a, b, c)
        if any(isinstance(a, ast.Starred) and isinstance(a.value, (ast.Tuple, ast.List)) for a in node.args):
            args = []
            for a in node.args:
                if isinstance(a, ast.Starred) and isinstance(a.value, (ast.Tuple, ast.List)) and not any(isinstance(x, ast.Starred) for x in a.value.elts):
                    args += a.value.elts
                else:
                    args.append(a)
            node.args = args
        f = node.func
        # re.compile(P[, flags]).match(s) is re.match(P, s[, flags]) (a pre-compiled pattern and the module-level call are one form)
        if isinstance(f, ast.Attribute) and f.attr in ("match", "fullmatch", "search", "sub", "subn", "findall", "finditer", "split") and isinstance(f.value, ast.Call) \
                and ast.unparse(f.value.func) == "re.compile" and 1 <= len(f.value.args) <= 2 and not f.value.keywords and not node.keywords:
            flags = [ast.keyword(arg="flags", value=f.value.args[1])] if len(f.value.args) == 2 else []
            return ast.copy_location(ast.Call(func=ast.Attribute(value=ast.Name(id="re", ctx=ast.Load()), attr=f.attr, ctx=ast.Load()), args=[f.value.args[0]] + list(node.args), keywords=flags), node)
        # b"".join((a, b, c)) over a literal sequence is a + b + c (one canonical form for a fixed concatenation)
        if isinstance(f, ast.Attribute) and f.attr == "join" and isinstance(f.value, ast.Constant) and f.value.value == b"" and len(node.args) == 1 and not node.keywords \
                and isinstance(node.args[0], (ast.Tuple, ast.List)) and node.args[0].elts and not any(isinstance(x, ast.Starred) for x in node.args[0].elts):
            e = node.args[0].elts[0]
            for x in node.args[0].elts[1:]:
                e = ast.copy_location(ast.BinOp(left=e, op=ast.Add(), right=x), node)
            return e
        return node

    def _unroll(self, node):
        """[f(v) for v in (a, b)] over a short literal sequence is [f(a), f(b)]."""
        self.generic_visit(node)
        if len(node.generators) == 1:
            g = node.generators[0]
            if isinstance(g.target, ast.Name) and not g.ifs and not g.is_async and isinstance(g.iter, (ast.Tuple, ast.List)) and 1 <= len(g.iter.elts) <= 6 \
                    and not any(isinstance(x, ast.Starred) for x in g.iter.elts):
                var = g.target.id

                class R(ast.NodeTransformer):
                    def __init__(self, val):
                        self.val = val

                    def visit_Name(self, n):  # noqa: N802
                        return copy.deepcopy(self.val) if n.id == var and isinstance(n.ctx, ast.Load) else n
                if not any(isinstance(n, (ast.Lambda, ast.ListComp, ast.GeneratorExp, ast.SetComp, ast.DictComp, ast.NamedExpr)) for n in ast.walk(node.elt)):
                    return ast.copy_location(ast.List(elts=[R(x).visit(copy.deepcopy(node.elt)) for x in g.iter.elts], ctx=ast.Load()), node)
        return node

    visit_ListComp = visit_GeneratorExp = _unroll

    def visit_IfExp(self, node):
        # canonical polarity: `a if not c else b` -> `b if c else a` (decided before the test itself is canonicalised)
        if isinstance(node.test, ast.UnaryOp) and isinstance(node.test.op, ast.Not):
            node = ast.copy_location(ast.IfExp(test=node.test.operand, body=node.orelse, orelse=node.body), node)
        self.generic_visit(node)
        return node

    def visit_Assign(self, node):
        self.generic_visit(node)
        # x = x op e  ->  x op= e  (one canonical form for accumulation)
        if len(node.targets) == 1 and isinstance(node.targets[0], (ast.Name, ast.Attribute)) and isinstance(node.value, ast.BinOp):
            if ast.unparse(node.value.left) == ast.unparse(node.targets[0]):
                return ast.copy_location(ast.AugAssign(target=node.targets[0], op=node.value.op, value=node.value.right), node)
        return node

    def visit_AnnAssign(self, node):
        self.generic_visit(node)
        if getattr(self, "_depth", 0) > 0 and node.value is not None and node.simple in (0, 1):
            a = ast.copy_location(ast.Assign(targets=[node.target], value=node.value, type_comment=None), node)
            if isinstance(a.value, ast.BinOp) and ast.unparse(a.value.left) == ast.unparse(a.targets[0]):
                return ast.copy_location(ast.AugAssign(target=a.targets[0], op=a.value.op, value=a.value.right), node)
            return a
        return node


def _normalise(tree: ast.Module) -> ast.Module:
    return _Normalise().visit(tree)


class ModuleInfo:
    def __init__(self, relpath: str, src: str):
        self.relpath = relpath  # e.g. spsdk/utils/misc.py
        self.src = src
        self.tree = _normalise(ast.parse(src, filename=relpath))
        if os.environ.get("VERIF_NO_RESTORE_LOCALS") != "1":
            from . import derefactor, reflocals
            dg = hashlib.sha256(src.encode()).hexdigest()[:16]
            ref = reflocals.reference().get(relpath)
            if ref and ref.get("__digest__") != dg:
                self.derefactored = derefactor.apply(relpath, self.tree, ref)
            self.renamed_locals = reflocals.restore(relpath, self.tree, dg)
            if ref and ref.get("__digest__") != dg:
                self.temporaries = reflocals.settle_temporaries(relpath, self.tree)
                if any(self.derefactored) or any(self.temporaries):
                    # inlined helpers / constants / temporaries may expose further canonical forms (the pass is idempotent)
                    self.tree = ast.fix_missing_locations(_normalise(self.tree))
        name = relpath[:-3].replace("/", ".")
        if name.endswith(".__init__"):
            name = name[: -len(".__init__")]
        self.name = name
        self.is_pkg = relpath.endswith("__init__.py")
        for node in ast.walk(self.tree):
            for ch in ast.iter_child_nodes(node):
                ch._parent = node  # type: ignore[attr-defined]

    @property
    def digest(self) -> str:
        return hashlib.sha256(self.src.encode()).hexdigest()[:16]


class Repo:
    def __init__(self, root: str = "/repo", overlays: Optional[Dict[str, str]] = None):
        self.root = os.path.abspath(root)
        self.overlays = dict(overlays or {})
        self._mods: Dict[str, ModuleInfo] = {}
        self.consulted: Dict[str, str] = {}

    def exists(self, relpath: str) -> bool:
        return relpath in self.overlays or os.path.isfile(os.path.join(self.root, relpath))

    def read(self, relpath: str) -> str:
        if relpath in self.overlays:
            return self.overlays[relpath]
        p = os.path.join(self.root, relpath)
        if not os.path.isfile(p):
            raise AnalysisError(f"anchor file missing: {relpath}")
        with open(p, encoding="utf-8") as f:
            return f.read()

    def module(self, relpath: str) -> ModuleInfo:
        if relpath not in self._mods:
            try:
                self._mods[relpath] = ModuleInfo(relpath, self.read(relpath))
            except SyntaxError as e:
                raise AnalysisError(f"cannot parse {relpath}: {e}") from e
            self.consulted[relpath] = self._mods[relpath].digest
        return self._mods[relpath]

    def iter_py(self, sub: str = "spsdk") -> Iterator[str]:
        base = os.path.join(self.root, sub)
        seen = set()
        for dp, dn, fn in os.walk(base):
            dn[:] = sorted(d for d in dn if d != "__pycache__")
            for f in sorted(fn):
                if f.endswith(".py"):
                    rp = os.path.relpath(os.path.join(dp, f), self.root)
                    seen.add(rp)
                    yield rp
        for rp in sorted(self.overlays):
            if rp.startswith(sub + "/") and rp.endswith(".py") and rp not in seen:
                yield rp
