"""Source model loader: parses /repo's *current working tree* with the stdlib ast module.

Nothing from spsdk is imported or executed. Overlays (path -> source text) let the
self-validation battery analyse an edited variant of one file without touching the disk.
"""
from __future__ import annotations

import ast
import hashlib
import os
from typing import Dict, Iterator, Optional


class AnalysisError(Exception):
    """An anchor a rule needs has vanished / is outside the analysed fragment (exit 2)."""


class ModuleInfo:
    def __init__(self, relpath: str, src: str):
        self.relpath = relpath  # e.g. spsdk/utils/misc.py
        self.src = src
        self.tree = ast.parse(src, filename=relpath)
        name = relpath[:-3].replace("/", ".")
        if name.endswith(".__init__"):
            name = name[: -len(".__init__")]
        self.name = name
        self.is_pkg = relpath.endswith("__init__.py")
        for node in ast.walk(self.tree):
            for ch in ast.iter_child_nodes(node):
                ch._parent = node  # type: ignore[attr-defined]

    @property
    def digest(self) -> str:
        return hashlib.sha256(self.src.encode()).hexdigest()[:16]


class Repo:
    def __init__(self, root: str = "/repo", overlays: Optional[Dict[str, str]] = None):
        self.root = os.path.abspath(root)
        self.overlays = dict(overlays or {})
        self._mods: Dict[str, ModuleInfo] = {}
        self.consulted: Dict[str, str] = {}

    def exists(self, relpath: str) -> bool:
        return relpath in self.overlays or os.path.isfile(os.path.join(self.root, relpath))

    def read(self, relpath: str) -> str:
        if relpath in self.overlays:
            return self.overlays[relpath]
        p = os.path.join(self.root, relpath)
        if not os.path.isfile(p):
            raise AnalysisError(f"anchor file missing: {relpath}")
        with open(p, encoding="utf-8") as f:
            return f.read()

    def module(self, relpath: str) -> ModuleInfo:
        if relpath not in self._mods:
            try:
                self._mods[relpath] = ModuleInfo(relpath, self.read(relpath))
            except SyntaxError as e:
                raise AnalysisError(f"cannot parse {relpath}: {e}") from e
            self.consulted[relpath] = self._mods[relpath].digest
        return self._mods[relpath]

    def iter_py(self, sub: str = "spsdk") -> Iterator[str]:
        base = os.path.join(self.root, sub)
        seen = set()
        for dp, dn, fn in os.walk(base):
            dn[:] = sorted(d for d in dn if d != "__pycache__")
            for f in sorted(fn):
                if f.endswith(".py"):
                    rp = os.path.relpath(os.path.join(dp, f), self.root)
                    seen.add(rp)
                    yield rp
        for rp in sorted(self.overlays):
            if rp.startswith(sub + "/") and rp.endswith(".py") and rp not in seen:
                yield rp
