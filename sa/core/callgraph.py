"""Resolved calls (names through imports, self/cls through the MRO, Class(...) -> __init__,
module.func, super()). Unresolved calls are counted, never guessed."""
from __future__ import annotations

import ast
from typing import Dict, Iterable, List, Optional, Set, Tuple

from . import astutil as A
from .symtab import ClassInfo, FuncInfo, ModuleInfo, Program


def all_functions(prog: Program) -> List[FuncInfo]:
    out = list(prog.functions.values())
    for c in prog.classes.values():
        for lst in c.methods.values():
            out.extend(lst)
    return out


def ctor_of(prog: Program, c: ClassInfo) -> List[FuncInfo]:
    out = []
    for name in ("__init__", "__new__", "__post_init__"):
        f = prog.find_method(c, name)
        if f is not None:
            out.append(f)
    return out


def resolve_call(prog: Program, m: ModuleInfo, cls: Optional[ClassInfo], call: ast.Call,
                 local_types: Optional[Dict[str, ClassInfo]] = None) -> Optional[List[FuncInfo]]:
    """None = unresolved (external or dynamic); [] = resolved to something without a body we know."""
    f = call.func
    if isinstance(f, ast.Name):
        r = prog.resolve(m, f.id)
        if isinstance(r, FuncInfo):
            return [r]
        if isinstance(r, ClassInfo):
            return ctor_of(prog, r)
        if f.id == "cls" and cls is not None:
            return ctor_of(prog, cls)
        return None
    if isinstance(f, ast.Attribute):
        base = f.value
        if isinstance(base, ast.Name) and base.id in ("self", "cls") and cls is not None:
            out = []
            t = prog.find_method(cls, f.attr)
            if t is not None:
                out.append(t)
            for sub in prog.subclasses(cls):
                t2 = sub.method(f.attr)
                if t2 is not None and t2 not in out:
                    out.append(t2)
            return out or None
        if isinstance(base, ast.Call) and isinstance(base.func, ast.Name) and base.func.id == "super" and cls is not None:
            t = prog.find_method(cls, f.attr, skip_self=True)
            return [t] if t else None
        if isinstance(base, ast.Name) and local_types and base.id in local_types:
            t = prog.find_method(local_types[base.id], f.attr)
            return [t] if t else None
        k = prog.resolve_expr_class(m, base) if isinstance(base, (ast.Name, ast.Attribute)) else None
        if k is not None:
            t = prog.find_method(k, f.attr)
            if t is not None:
                return [t]
            # nested class / enum member call etc.
            return None
        if isinstance(base, ast.Name):
            r = prog.resolve(m, base.id)
            if isinstance(r, ModuleInfo):
                r2 = prog.resolve(r, f.attr)
                if isinstance(r2, FuncInfo):
                    return [r2]
                if isinstance(r2, ClassInfo):
                    return ctor_of(prog, r2)
        return None
    return None


def external_name(prog: Program, m: ModuleInfo, call: ast.Call) -> Optional[str]:
    """Dotted external target of a call, e.g. 'secrets.token_bytes', 'os.urandom', 'random.randint'."""
    f = call.func
    imps = prog._imports.get(m.name, {})
    if isinstance(f, ast.Name) and f.id in imps:
        base, item = imps[f.id]
        if item is not None and base not in prog.modules:
            return f"{base}.{item}"
    d = A.dotted(f)
    if d and "." in d:
        head, rest = d.split(".", 1)
        if head in imps:
            base, item = imps[head]
            if base not in prog.modules or item is None:
                full = base if item is None else f"{base}.{item}"
                if full.split(".")[0] not in ("spsdk",):
                    return f"{full}.{rest}"
    return None


def reach_closure(prog: Program, seeds: Set[str], is_seed_call) -> Tuple[Dict[str, List[str]], int, int]:
    """Functions (by qual) that may reach a seed call. is_seed_call(module, call) -> Optional[str].
    Returns (tainted qual -> witness chain, resolved call count, unresolved call count)."""
    funcs = all_functions(prog)
    edges: Dict[str, Set[str]] = {}
    tainted: Dict[str, List[str]] = {}
    resolved = unresolved = 0
    for fn in funcs:
        outs: Set[str] = set()
        for c in A.calls_in(fn.node):
            s = is_seed_call(fn.module, c)
            if s:
                tainted.setdefault(fn.qual, [s])
                continue
            tg = resolve_call(prog, fn.module, fn.cls, c)
            if tg is None:
                unresolved += 1
            else:
                resolved += 1
                outs.update(t.qual for t in tg)
        edges[fn.qual] = outs
    changed = True
    while changed:
        changed = False
        for q, outs in edges.items():
            if q in tainted:
                continue
            for o in outs:
                if o in tainted:
                    tainted[q] = [o] + tainted[o][:4]
                    changed = True
                    break
    return tainted, resolved, unresolved
