"""Program model over the parsed tree: modules, classes (MRO), functions, import resolution,
constant folding. Stdlib only; never imports spsdk."""
from __future__ import annotations

import ast
import re
import struct
from typing import Any, Dict, List, Optional, Tuple

from .loader import AnalysisError, ModuleInfo, Repo


class Unknown:
    def __repr__(self) -> str:
        return "UNKNOWN"


UNKNOWN = Unknown()


class FuncInfo:
    def __init__(self, module: ModuleInfo, node: ast.AST, cls: Optional["ClassInfo"]):
        self.module = module
        self.node = node
        self.cls = cls
        self.name = node.name  # type: ignore[attr-defined]
        self.qual = f"{module.relpath}::{cls.name + '.' if cls else ''}{self.name}"
        self.decorators = [ast.unparse(d) for d in node.decorator_list]  # type: ignore[attr-defined]

    @property
    def is_property(self) -> bool:
        return any(d == "property" or d.endswith(".getter") for d in self.decorators)

    @property
    def is_setter(self) -> bool:
        return any(d.endswith(".setter") for d in self.decorators)

    @property
    def is_classmethod(self) -> bool:
        return "classmethod" in self.decorators

    @property
    def is_staticmethod(self) -> bool:
        return "staticmethod" in self.decorators

    def params(self) -> List[str]:
        a = self.node.args  # type: ignore[attr-defined]
        return [x.arg for x in a.posonlyargs + a.args + a.kwonlyargs]

    def __repr__(self) -> str:
        return f"<Func {self.qual}>"


class ClassInfo:
    def __init__(self, module: ModuleInfo, node: ast.ClassDef):
        self.module = module
        self.node = node
        self.name = node.name
        self.qual = f"{module.relpath}::{node.name}"
        self.methods: Dict[str, List[FuncInfo]] = {}
        self.consts: Dict[str, ast.expr] = {}
        self.annots: Dict[str, ast.expr] = {}
        for st in node.body:
            if isinstance(st, (ast.FunctionDef, ast.AsyncFunctionDef)):
                self.methods.setdefault(st.name, []).append(FuncInfo(module, st, self))
            elif isinstance(st, ast.Assign):
                for t in st.targets:
                    if isinstance(t, ast.Name):
                        self.consts[t.id] = st.value
            elif isinstance(st, ast.AnnAssign) and isinstance(st.target, ast.Name):
                self.annots[st.target.id] = st.annotation
                if st.value is not None:
                    self.consts[st.target.id] = st.value

    def method(self, name: str, kind: str = "plain") -> Optional[FuncInfo]:
        """kind: plain (getter / normal), setter"""
        for f in self.methods.get(name, []):
            if kind == "setter" and f.is_setter:
                return f
            if kind == "plain" and not f.is_setter:
                return f
        return None

    def __repr__(self) -> str:
        return f"<Class {self.qual}>"


class Program:
    def __init__(self, repo: Repo, packages: Tuple[str, ...] = ("spsdk",)):
        self.repo = repo
        self.modules: Dict[str, ModuleInfo] = {}
        self.by_relpath: Dict[str, ModuleInfo] = {}
        self.classes: Dict[str, ClassInfo] = {}  # qual -> info
        self.classes_by_name: Dict[str, List[ClassInfo]] = {}
        self.functions: Dict[str, FuncInfo] = {}  # module-level: qual -> info
        self._imports: Dict[str, Dict[str, Tuple[str, Optional[str]]]] = {}
        self._mro_cache: Dict[str, List[ClassInfo]] = {}
        self._mc_cache: Dict[str, Dict[str, ast.expr]] = {}
        self._sub_cache: Dict[str, List[ClassInfo]] = {}
        self._res_cache: Dict[Tuple[str, str], Any] = {}
        for pkg in packages:
            for rp in repo.iter_py(pkg):
                self._add(repo.module(rp))

    # ------------------------------------------------------------------ build
    def _add(self, m: ModuleInfo) -> None:
        self.modules[m.name] = m
        self.by_relpath[m.relpath] = m
        imps: Dict[str, Tuple[str, Optional[str]]] = {}
        for st in ast.walk(m.tree):
            if isinstance(st, ast.ImportFrom):
                base = st.module or ""
                if st.level:
                    parts = m.name.split(".")
                    if not m.is_pkg:
                        parts = parts[:-1]
                    parts = parts[: len(parts) - (st.level - 1)]
                    base = ".".join(parts + ([st.module] if st.module else []))
                for al in st.names:
                    imps[al.asname or al.name] = (base, al.name)
            elif isinstance(st, ast.Import):
                for al in st.names:
                    if al.asname:
                        imps[al.asname] = (al.name, None)
                    else:
                        imps[al.name.split(".")[0]] = (al.name.split(".")[0], None)
        self._imports[m.name] = imps
        for st in m.tree.body:
            self._add_defs(m, st)

    def _add_defs(self, m: ModuleInfo, st: ast.AST) -> None:
        if isinstance(st, ast.ClassDef):
            ci = ClassInfo(m, st)
            self.classes[ci.qual] = ci
            self.classes_by_name.setdefault(ci.name, []).append(ci)
        elif isinstance(st, (ast.FunctionDef, ast.AsyncFunctionDef)):
            fi = FuncInfo(m, st, None)
            self.functions[fi.qual] = fi
        elif isinstance(st, (ast.If, ast.Try)):
            for sub in ast.iter_child_nodes(st):
                if isinstance(sub, (ast.ClassDef, ast.FunctionDef)):
                    self._add_defs(m, sub)

    # ---------------------------------------------------------------- lookups
    def mod(self, relpath: str) -> ModuleInfo:
        if relpath not in self.by_relpath:
            raise AnalysisError(f"anchor module missing: {relpath}")
        return self.by_relpath[relpath]

    def cls(self, relpath: str, name: str) -> ClassInfo:
        q = f"{relpath}::{name}"
        if q not in self.classes:
            raise AnalysisError(f"anchor class missing: {q}")
        return self.classes[q]

    def func(self, relpath: str, name: str) -> FuncInfo:
        """name: 'fn' for module function or 'Class.method' (getter/plain variant)."""
        if "." in name:
            cn, mn = name.split(".", 1)
            f = self.find_method(self.cls(relpath, cn), mn)
            if f is None:
                raise AnalysisError(f"anchor method missing: {relpath}::{name}")
            return f
        q = f"{relpath}::{name}"
        if q not in self.functions:
            raise AnalysisError(f"anchor function missing: {q}")
        return self.functions[q]

    def own_method(self, relpath: str, cname: str, mname: str, kind: str = "plain") -> FuncInfo:
        f = self.cls(relpath, cname).method(mname, kind)
        if f is None:
            raise AnalysisError(f"anchor method missing: {relpath}::{cname}.{mname}")
        return f

    def module_consts(self, m: ModuleInfo) -> Dict[str, ast.expr]:
        if m.relpath in self._mc_cache:
            return self._mc_cache[m.relpath]
        d: Dict[str, ast.expr] = {}
        self._mc_cache[m.relpath] = d
        for st in m.tree.body:
            if isinstance(st, ast.Assign):
                for t in st.targets:
                    if isinstance(t, ast.Name):
                        d[t.id] = st.value
            elif isinstance(st, ast.AnnAssign) and isinstance(st.target, ast.Name) and st.value:
                d[st.target.id] = st.value
        return d

    def resolve(self, m: ModuleInfo, name: str, _depth: int = 0) -> Any:
        """Resolve a bare name in module m to ClassInfo / FuncInfo / ('const', module, expr) / ModuleInfo / None."""
        if _depth > 6:
            return None
        key = (m.relpath, name)
        if key in self._res_cache:
            return self._res_cache[key]
        r = self._resolve(m, name, _depth)
        self._res_cache[key] = r
        return r

    def _resolve(self, m: ModuleInfo, name: str, _depth: int = 0) -> Any:
        q = f"{m.relpath}::{name}"
        if q in self.classes:
            return self.classes[q]
        if q in self.functions:
            return self.functions[q]
        mc = self.module_consts(m)
        if name in mc:
            return ("const", m, mc[name])
        imp = self._imports.get(m.name, {}).get(name)
        if imp:
            base, item = imp
            if item is None:
                return self.modules.get(base)
            if base in self.modules:
                tgt = self.modules[base]
                r = self.resolve(tgt, item, _depth + 1)
                if r is not None:
                    return r
            sub = f"{base}.{item}"
            if sub in self.modules:
                return self.modules[sub]
        return None

    def resolve_expr_class(self, m: ModuleInfo, e: ast.expr) -> Optional[ClassInfo]:
        if isinstance(e, ast.Name):
            r = self.resolve(m, e.id)
            return r if isinstance(r, ClassInfo) else None
        if isinstance(e, ast.Attribute) and isinstance(e.value, ast.Name):
            r = self.resolve(m, e.value.id)
            if isinstance(r, ModuleInfo):
                r2 = self.resolve(r, e.attr)
                return r2 if isinstance(r2, ClassInfo) else None
        if isinstance(e, ast.Subscript):  # Generic[T]
            return self.resolve_expr_class(m, e.value)
        return None

    def bases(self, c: ClassInfo) -> List[ClassInfo]:
        out = []
        for b in c.node.bases:
            r = self.resolve_expr_class(c.module, b)
            if r is not None:
                out.append(r)
        return out

    def mro(self, c: ClassInfo) -> List[ClassInfo]:
        """C3 linearisation over resolved bases (unresolved/external bases are skipped)."""
        def merge(seqs: List[List[ClassInfo]]) -> List[ClassInfo]:
            res: List[ClassInfo] = []
            seqs = [list(s) for s in seqs if s]
            while seqs:
                for s in seqs:
                    cand = s[0]
                    if not any(cand in t[1:] for t in seqs):
                        break
                else:
                    # inconsistent; fall back to DFS order
                    cand = seqs[0][0]
                res.append(cand)
                seqs = [[x for x in s if x is not cand] for s in seqs]
                seqs = [s for s in seqs if s]
            return res

        if c.qual in self._mro_cache:
            return self._mro_cache[c.qual]
        bs = self.bases(c)
        r = [c] + merge([self.mro(b) for b in bs] + [bs])
        self._mro_cache[c.qual] = r
        return r

    def find_method(self, c: ClassInfo, name: str, kind: str = "plain", skip_self: bool = False) -> Optional[FuncInfo]:
        chain = self.mro(c)
        if skip_self:
            chain = chain[1:]
        for k in chain:
            f = k.method(name, kind)
            if f is not None:
                return f
        return None

    def find_const(self, c: ClassInfo, name: str) -> Optional[Tuple[ClassInfo, ast.expr]]:
        for k in self.mro(c):
            if name in k.consts:
                return k, k.consts[name]
        return None

    def subclasses(self, c: ClassInfo) -> List[ClassInfo]:
        if c.qual not in self._sub_cache:
            self._sub_cache[c.qual] = [k for k in self.classes.values() if k is not c and c in self.mro(k)]
        return self._sub_cache[c.qual]

    # --------------------------------------------------------------- folding
    def fold(self, e: Optional[ast.expr], m: ModuleInfo, c: Optional[ClassInfo] = None,
             env: Optional[Dict[str, Any]] = None, depth: int = 0) -> Any:
        """Fold an expression to a Python value (int/str/bytes/bool/tuple/list/dict) or UNKNOWN."""
        if e is None or depth > 40:
            return UNKNOWN
        F = lambda x, mm=m, cc=c: self.fold(x, mm, cc, env, depth + 1)  # noqa: E731
        if isinstance(e, ast.Constant):
            return e.value
        if isinstance(e, ast.Name):
            if env and e.id in env:
                return env[e.id]
            if c is not None and e.id in c.consts and depth > 0:
                # a bare name inside a class body refers to an earlier class-level constant
                return self.fold(c.consts[e.id], c.module, c, None, depth + 1)
            r = self.resolve(m, e.id)
            if isinstance(r, tuple) and r[0] == "const":
                return self.fold(r[2], r[1], None, None, depth + 1)
            return UNKNOWN
        if isinstance(e, ast.Attribute):
            base = e.value
            if isinstance(base, ast.Name) and base.id in ("self", "cls") and c is not None:
                fc = self.find_const(c, e.attr)
                if fc:
                    return self.fold(fc[1], fc[0].module, fc[0], None, depth + 1)
                return UNKNOWN
            k = self.resolve_expr_class(m, base) if isinstance(base, (ast.Name, ast.Attribute)) else None
            if k is not None:
                fc = self.find_const(k, e.attr)
                if fc:
                    v = self.fold(fc[1], fc[0].module, fc[0], None, depth + 1)
                    return v
                return UNKNOWN
            if isinstance(base, ast.Name):
                r = self.resolve(m, base.id)
                if isinstance(r, ModuleInfo):
                    mc = self.module_consts(r)
                    if e.attr in mc:
                        return self.fold(mc[e.attr], r, None, None, depth + 1)
            # Enum.MEMBER.tag / .label
            if e.attr in ("tag", "label") and isinstance(base, ast.Attribute):
                v = F(base)
                if isinstance(v, tuple) and len(v) >= 2:
                    return v[0] if e.attr == "tag" else v[1]
            return UNKNOWN
        if isinstance(e, ast.UnaryOp):
            v = F(e.operand)
            if v is UNKNOWN:
                return UNKNOWN
            try:
                if isinstance(e.op, ast.USub):
                    return -v
                if isinstance(e.op, ast.UAdd):
                    return +v
                if isinstance(e.op, ast.Invert):
                    return ~v
                if isinstance(e.op, ast.Not):
                    return not v
            except Exception:
                return UNKNOWN
        if isinstance(e, ast.BinOp):
            a, b = F(e.left), F(e.right)
            if a is UNKNOWN or b is UNKNOWN:
                return UNKNOWN
            try:
                op = e.op
                if isinstance(op, ast.Add):
                    return a + b
                if isinstance(op, ast.Sub):
                    return a - b
                if isinstance(op, ast.Mult):
                    return a * b
                if isinstance(op, ast.FloorDiv):
                    return a // b
                if isinstance(op, ast.Mod):
                    return a % b
                if isinstance(op, ast.LShift):
                    return a << b
                if isinstance(op, ast.RShift):
                    return a >> b
                if isinstance(op, ast.BitOr):
                    return a | b
                if isinstance(op, ast.BitAnd):
                    return a & b
                if isinstance(op, ast.BitXor):
                    return a ^ b
                if isinstance(op, ast.Pow):
                    return a ** b
            except Exception:
                return UNKNOWN
            return UNKNOWN
        if isinstance(e, (ast.Tuple, ast.List)):
            vals = [F(x) for x in e.elts]
            if any(v is UNKNOWN for v in vals):
                return UNKNOWN
            return tuple(vals) if isinstance(e, ast.Tuple) else list(vals)
        if isinstance(e, ast.Dict):
            d = {}
            for k, v in zip(e.keys, e.values):
                if k is None:
                    return UNKNOWN
                kk, vv = F(k), F(v)
                if kk is UNKNOWN:
                    return UNKNOWN
                try:
                    d[kk] = vv
                except TypeError:
                    return UNKNOWN
            return d
        if isinstance(e, ast.JoinedStr):
            out = ""
            for v in e.values:
                if isinstance(v, ast.Constant):
                    out += str(v.value)
                elif isinstance(v, ast.FormattedValue):
                    x = F(v.value)
                    if x is UNKNOWN or v.format_spec is not None:
                        return UNKNOWN
                    out += str(x)
            return out
        if isinstance(e, ast.Call):
            fn = e.func
            if isinstance(fn, ast.Name) and fn.id in ("calcsize",) or (
                isinstance(fn, ast.Attribute) and fn.attr == "calcsize"
            ):
                if len(e.args) == 1:
                    v = F(e.args[0])
                    if isinstance(v, str):
                        try:
                            return struct.calcsize(v)
                        except struct.error:
                            return UNKNOWN
                return UNKNOWN
            if isinstance(fn, ast.Name) and fn.id in ("bytes", "bytearray") and not e.args and not e.keywords:
                return b""
            if isinstance(fn, ast.Name) and fn.id in ("bytes", "len", "int", "bytearray") and len(e.args) == 1 and not e.keywords:
                v = F(e.args[0])
                if v is UNKNOWN:
                    return UNKNOWN
                try:
                    return {"bytes": bytes, "len": len, "int": int, "bytearray": bytes}[fn.id](v)
                except Exception:
                    return UNKNOWN
            if isinstance(fn, ast.Attribute) and fn.attr == "fromhex" and len(e.args) == 1:
                v = F(e.args[0])
                if isinstance(v, str):
                    try:
                        return bytes.fromhex(v)
                    except ValueError:
                        return UNKNOWN
            # zero-arg method returning one foldable expression: self.format() / cls.format() / super().format() / K.format()
            if isinstance(fn, ast.Attribute) and not e.args and not e.keywords:
                target: Optional[FuncInfo] = None
                if isinstance(fn.value, ast.Name) and fn.value.id in ("self", "cls") and c is not None:
                    target = self.find_method(c, fn.attr)
                elif isinstance(fn.value, ast.Call) and isinstance(fn.value.func, ast.Name) and fn.value.func.id == "super" and c is not None:
                    owner = env.get("__owner__") if env else None
                    chain = self.mro(c)
                    if owner in chain:
                        chain = chain[chain.index(owner) + 1:]
                    else:
                        chain = chain[1:]
                    for k in chain:
                        target = k.method(fn.attr)
                        if target:
                            break
                else:
                    k = self.resolve_expr_class(m, fn.value) if isinstance(fn.value, (ast.Name, ast.Attribute)) else None
                    if k is not None:
                        target = self.find_method(k, fn.attr)
                        if target is not None:
                            return self._fold_method(target, k, depth)
                if target is not None:
                    return self._fold_method(target, c, depth)
            return UNKNOWN
        if isinstance(e, ast.Subscript):
            v = F(e.value)
            if v is UNKNOWN:
                return UNKNOWN
            if isinstance(e.slice, ast.Slice):
                lo = F(e.slice.lower) if e.slice.lower else None
                hi = F(e.slice.upper) if e.slice.upper else None
                if lo is UNKNOWN or hi is UNKNOWN or e.slice.step:
                    return UNKNOWN
                try:
                    return v[lo:hi]
                except Exception:
                    return UNKNOWN
            i = F(e.slice)
            if i is UNKNOWN:
                return UNKNOWN
            try:
                return v[i]
            except Exception:
                return UNKNOWN
        if isinstance(e, ast.IfExp):
            t = F(e.test)
            if t is UNKNOWN:
                return UNKNOWN
            return F(e.body) if t else F(e.orelse)
        return UNKNOWN

    def _fold_method(self, f: FuncInfo, concrete: Optional[ClassInfo], depth: int) -> Any:
        rets = [s for s in ast.walk(f.node) if isinstance(s, ast.Return)]
        body = [s for s in f.node.body if not (isinstance(s, ast.Expr) and isinstance(s.value, ast.Constant))]  # type: ignore[attr-defined]
        if len(rets) != 1 or len(body) != 1 or body[0] is not rets[0]:
            return UNKNOWN
        return self.fold(rets[0].value, f.module, concrete or f.cls, {"__owner__": f.cls}, depth + 1)


# --------------------------------------------------------------------------- struct helpers
_ITEM = re.compile(r"(\d*)([xcbB?hHiIlLqQnNefdspP])")
_SIZES = {"x": 1, "c": 1, "b": 1, "B": 1, "?": 1, "h": 2, "H": 2, "i": 4, "I": 4, "l": 4, "L": 4,
          "q": 8, "Q": 8, "e": 2, "f": 4, "d": 8}


def struct_items(fmt: str) -> Optional[List[Tuple[str, int]]]:
    """Expand a standard-size format ('<', '>', '!', '=') to [(code, byte_size)] per produced value.
    Padding 'x' is returned with code 'x'. Returns None for native/unknown formats."""
    if not fmt or fmt[0] not in "<>!=":
        # native alignment: sizes platform dependent; only accept when no item needs alignment
        body = fmt.lstrip("@")
        order = "@"
    else:
        order, body = fmt[0], fmt[1:]
    out: List[Tuple[str, int]] = []
    pos = 0
    body = body.replace(" ", "")
    while pos < len(body):
        m = _ITEM.match(body, pos)
        if not m:
            return None
        cnt, ch = m.group(1), m.group(2)
        n = int(cnt) if cnt else 1
        if ch in "sp":
            out.append((ch, n))
        elif ch in "nNP":
            return None
        else:
            for _ in range(n):
                out.append((ch, _SIZES[ch]))
        pos = m.end()
    if order == "@" and any(sz > 1 for ch, sz in out if ch not in "sx"):
        return None
    return out


def byte_order(fmt: str) -> str:
    return fmt[0] if fmt and fmt[0] in "<>!=@" else "@"
