"""Undo two common behaviour-preserving refactorings before the rules look at a module, using the reference tree as the yardstick:

 * a NEW named constant (module or class level, not present in the reference tree) whose value is a literal (or calcsize of one,
   or simple arithmetic on literals) is propagated back into its uses  ("magic number -> named constant");
 * a NEW simple helper (function or method not present in the reference tree: straight-line body ending in one `return <expr>`)
   is inlined at its call sites in the same module  ("extract helper").

Both rewrites are semantics preserving views of the code under analysis (constant propagation and inlining of side-effect-free
straight-line helpers); helpers and constants that already exist in the reference tree are left alone, because rules refer to them
by name. Anything the pass is not sure about is left untouched."""
from __future__ import annotations

import ast
import copy
import struct
from typing import Any, Dict, List, Optional, Set, Tuple

_SIMPLE = (ast.Assign, ast.AugAssign, ast.AnnAssign, ast.Assert)


def _doc(st: ast.stmt) -> bool:
    return isinstance(st, ast.Expr) and isinstance(st.value, ast.Constant) and isinstance(st.value.value, str)


def functions_of(tree: ast.Module) -> Dict[str, Tuple[ast.AST, Optional[ast.ClassDef]]]:
    out: Dict[str, Tuple[ast.AST, Optional[ast.ClassDef]]] = {}
    for n in tree.body:
        if isinstance(n, (ast.FunctionDef, ast.AsyncFunctionDef)):
            out[n.name] = (n, None)
        elif isinstance(n, ast.ClassDef):
            todo = [(n, n.name)]
            while todo:
                k, prefix = todo.pop(0)
                for m in k.body:
                    if isinstance(m, (ast.FunctionDef, ast.AsyncFunctionDef)):
                        q = f"{prefix}.{m.name}"
                        if any(isinstance(d, ast.Attribute) and d.attr == "setter" for d in m.decorator_list):
                            q += ".setter"
                        out[q] = (m, k)
                    elif isinstance(m, ast.ClassDef):
                        todo.append((m, f"{prefix}.{m.name}"))  # nested classes (methods keyed Outer.Inner.method)
    return out


def all_functions(tree: ast.Module) -> List[Tuple[str, ast.AST, Optional[ast.ClassDef]]]:
    """Like functions_of, but every definition is listed: a class may define one name several times (overloads registered by a
    decorator, e.g. the grammar actions of a sly parser), and each of them can host calls to a helper."""
    out: List[Tuple[str, ast.AST, Optional[ast.ClassDef]]] = []
    for n in tree.body:
        if isinstance(n, (ast.FunctionDef, ast.AsyncFunctionDef)):
            out.append((n.name, n, None))
        elif isinstance(n, ast.ClassDef):
            todo = [(n, n.name)]
            while todo:
                k, prefix = todo.pop(0)
                for m in k.body:
                    if isinstance(m, (ast.FunctionDef, ast.AsyncFunctionDef)):
                        q = f"{prefix}.{m.name}"
                        if any(isinstance(d, ast.Attribute) and d.attr == "setter" for d in m.decorator_list):
                            q += ".setter"
                        out.append((q, m, k))
                    elif isinstance(m, ast.ClassDef):
                        todo.append((m, f"{prefix}.{m.name}"))
    return out


def consts_of(tree: ast.Module) -> Dict[str, Tuple[ast.expr, Optional[ast.ClassDef]]]:
    out: Dict[str, Tuple[ast.expr, Optional[ast.ClassDef]]] = {}

    def scan(body, cls):
        for st in body:
            tgt, val = None, None
            if isinstance(st, ast.Assign) and len(st.targets) == 1 and isinstance(st.targets[0], ast.Name):
                tgt, val = st.targets[0].id, st.value
            elif isinstance(st, ast.AnnAssign) and isinstance(st.target, ast.Name) and st.value is not None:
                tgt, val = st.target.id, st.value
            if tgt is not None:
                out[(cls.name + "." if cls else "") + tgt] = (val, cls)
    scan(tree.body, None)
    for n in tree.body:
        if isinstance(n, ast.ClassDef):
            scan(n.body, n)
    return out


def reference_names(tree: ast.Module) -> Dict[str, List[str]]:
    return {"__functions__": sorted(functions_of(tree)), "__consts__": sorted(consts_of(tree))}


# ------------------------------------------------------------------------------------------- constants
def _literal(e: ast.expr, consts: Dict[str, Tuple[ast.expr, Optional[ast.ClassDef]]], cls: Optional[ast.ClassDef], depth: int = 0) -> Any:
    if depth > 6:
        return None
    if isinstance(e, ast.Constant) and isinstance(e.value, (str, int, bytes)) and not isinstance(e.value, bool):
        return e.value
    if isinstance(e, ast.Name):
        for key in ((cls.name + "." + e.id) if cls else None, e.id):
            if key and key in consts:
                return _literal(consts[key][0], consts, consts[key][1], depth + 1)
        return None
    if isinstance(e, ast.Attribute) and isinstance(e.value, ast.Name):
        owner = cls.name if (e.value.id in ("self", "cls") and cls) else e.value.id
        key = f"{owner}.{e.attr}"
        if key in consts:
            return _literal(consts[key][0], consts, consts[key][1], depth + 1)
        return None
    if isinstance(e, ast.Call) and isinstance(e.func, (ast.Name, ast.Attribute)) and (e.func.id if isinstance(e.func, ast.Name) else e.func.attr) == "calcsize" and len(e.args) == 1:
        f = _literal(e.args[0], consts, cls, depth + 1)
        if isinstance(f, str):
            try:
                return struct.calcsize(f)
            except struct.error:
                return None
        return None
    if isinstance(e, ast.BinOp) and isinstance(e.op, (ast.Add, ast.Sub, ast.Mult)):
        a, b = _literal(e.left, consts, cls, depth + 1), _literal(e.right, consts, cls, depth + 1)
        if a is None or b is None:
            return None
        try:
            if isinstance(e.op, ast.Add):
                return a + b
            if isinstance(e.op, ast.Sub):
                return a - b
            return a * b
        except TypeError:
            return None
    return None


def _size(e: ast.AST) -> int:
    return sum(1 for _ in ast.walk(e))


def propagate_new_constants(tree: ast.Module, ref_consts: Set[str]) -> int:
    consts = consts_of(tree)
    new = {k: v for k, v in consts.items() if k not in ref_consts}
    lits: Dict[str, Any] = {}
    for k, (val, cls) in new.items():
        v = _literal(val, consts, cls)
        if v is not None:
            lits[k] = v
    # new constants holding a closed structure (table literal, compiled pattern): their uses are replaced by the structure itself
    class _Val:
        def __init__(self, e):
            self.e = e
    for k, (val, cls) in new.items():
        if k in lits or _size(val) > 300:
            continue
        ok = isinstance(val, (ast.Dict, ast.List, ast.Tuple, ast.Set)) or (isinstance(val, ast.Call) and ast.unparse(val.func) in ("re.compile", "frozenset", "tuple"))
        for x in ast.walk(val):
            if isinstance(x, ast.Call) and ast.unparse(x.func) not in ("re.compile", "frozenset", "tuple", "struct.calcsize", "calcsize"):
                ok = False
            if isinstance(x, (ast.Lambda, ast.ListComp, ast.DictComp, ast.SetComp, ast.GeneratorExp, ast.Starred, ast.NamedExpr)):
                ok = False
            if isinstance(x, ast.Name) and cls is not None and f"{cls.name}.{x.id}" in consts:
                ok = False  # a bare class-level name does not resolve inside a method body
        if ok:
            lits[k] = _Val(val)
    if not lits:
        return 0
    n = 0

    def mk(v, node):
        if isinstance(v, _Val):
            return ast.copy_location(copy.deepcopy(v.e), node)
        return ast.copy_location(ast.Constant(value=v), node)
    fn_locals = {x.id for f in ast.walk(tree) if isinstance(f, (ast.FunctionDef, ast.AsyncFunctionDef)) for x in ast.walk(f) if isinstance(x, ast.Name) and isinstance(x.ctx, ast.Store)}

    class T(ast.NodeTransformer):
        def __init__(self):
            self.cls: List[ast.ClassDef] = []

        def visit_ClassDef(self, node):
            self.cls.append(node)
            self.generic_visit(node)
            self.cls.pop()
            return node

        def visit_Attribute(self, node):
            nonlocal n
            self.generic_visit(node)
            if isinstance(node.ctx, ast.Load) and isinstance(node.value, ast.Name):
                owner = self.cls[-1].name if (node.value.id in ("self", "cls") and self.cls) else node.value.id
                key = f"{owner}.{node.attr}"
                if key in lits:
                    n += 1
                    return mk(lits[key], node)
                # constant defined on a base class of the current class inside this module
                if node.value.id in ("self", "cls") and self.cls:
                    for b in self.cls[-1].bases:
                        if isinstance(b, ast.Name) and f"{b.id}.{node.attr}" in lits:
                            n += 1
                            return mk(lits[f"{b.id}.{node.attr}"], node)
            return node

        def visit_Name(self, node):
            nonlocal n
            if isinstance(node.ctx, ast.Load) and node.id in lits and node.id.upper() == node.id and node.id not in fn_locals:
                n += 1
                return mk(lits[node.id], node)
            return node
    T().visit(tree)
    return n


# ------------------------------------------------------------------------------------------- helpers
def _eligible(fn: ast.AST) -> Optional[Tuple[List[ast.stmt], ast.expr]]:
    a = fn.args  # type: ignore[attr-defined]
    if a.kwarg or a.posonlyargs:
        return None
    for d in fn.decorator_list:  # type: ignore[attr-defined]
        if not (isinstance(d, ast.Name) and d.id in ("staticmethod", "classmethod")):
            return None
    body = [s for i, s in enumerate(fn.body) if not (i == 0 and _doc(s))]  # type: ignore[attr-defined]
    if not body:
        return None
    tree_k = None
    if isinstance(body[-1], ast.Return) and body[-1].value is not None:
        pre, ret, last = body[:-1], body[-1].value, body[-1]
        if any(isinstance(n, ast.Return) for s in pre for n in ast.walk(s)):
            # a decision tree of returns (`if c: return a` ... `return z`) is the conditional expression `a if c else ... z`
            for k in range(len(body)):
                if any(isinstance(n, ast.Return) for s in body[:k] for n in ast.walk(s)):
                    break
                rt = _ret_tree(body[k:])
                if rt is not None:
                    tree_k, pre, ret = k, body[:k], rt
                    break
            if tree_k is None:
                return None
    else:
        # a procedure (returns nothing: mutates an argument, raises, calls on): its statements are spliced in, the call yields None
        last = body[-1] if isinstance(body[-1], ast.Return) else None
        pre, ret = (body[:-1] if last is not None else body), ast.Constant(value=None)
        if not pre:
            return None
    params = {x.arg for x in a.args + a.kwonlyargs} | ({a.vararg.arg} if a.vararg else set())
    for s in pre:
        if isinstance(s, (ast.FunctionDef, ast.AsyncFunctionDef, ast.ClassDef, ast.Global, ast.Nonlocal)):
            return None
        if any(isinstance(n, ast.Name) and isinstance(n.ctx, (ast.Store, ast.Del)) and n.id in params for n in ast.walk(s)):
            return None  # a parameter that is re-bound cannot be substituted by its argument
    for n in ast.walk(fn):
        if n is not fn and isinstance(n, (ast.FunctionDef, ast.AsyncFunctionDef, ast.Lambda, ast.Yield, ast.YieldFrom)):
            return None
        if isinstance(n, ast.Return) and n is not last and tree_k is None:
            return None
        if isinstance(n, ast.Name) and n.id == fn.name:  # type: ignore[attr-defined]
            return None
        if isinstance(n, ast.Attribute) and n.attr == fn.name and isinstance(n.value, ast.Name) and n.value.id in ("self", "cls"):  # type: ignore[attr-defined]
            return None
    return pre, ret


def _tail_returns(stmts: List[ast.stmt]) -> Optional[List[ast.Return]]:
    """All `return` statements of a body, provided every one of them is in tail position (nothing of the function runs after it):
    last statement of the body, of both arms of a trailing `if`, of a trailing `with` body, of a trailing try body / handler."""
    if not stmts:
        return []
    for st in stmts[:-1]:
        if any(isinstance(n, ast.Return) for n in ast.walk(st)):
            # an early `if c: return x` is still a tail return when what follows is the other arm
            if isinstance(st, ast.If) and not st.orelse and st is stmts[0] and len(stmts) > 1:
                a = _tail_returns(st.body)
                b = _tail_returns(stmts[1:])
                if a is not None and b is not None and st.body and isinstance(st.body[-1], ast.Return):
                    return a + b
            return None
    last = stmts[-1]
    if isinstance(last, ast.Return):
        return [last]
    if isinstance(last, ast.If):
        a, b = _tail_returns(last.body), _tail_returns(last.orelse)
        return None if a is None or b is None else a + b
    if isinstance(last, (ast.With, ast.AsyncWith)):
        return _tail_returns(last.body)
    if isinstance(last, ast.Try):
        parts = [_tail_returns(last.body)] + [_tail_returns(h.body) for h in last.handlers] + [_tail_returns(last.orelse)]
        if any(p is None for p in parts) or any(isinstance(n, ast.Return) for x in last.finalbody for n in ast.walk(x)):
            return None
        return [r for p in parts for r in p]
    if any(isinstance(n, ast.Return) for n in ast.walk(last)):
        return None
    return []


def _stmt_eligible(fn: ast.AST) -> Optional[List[ast.stmt]]:
    """Body of a helper that can be spliced in statement position (`x = helper(..)`, `return helper(..)`, `helper(..)`)."""
    a = fn.args  # type: ignore[attr-defined]
    if a.kwarg or a.posonlyargs:
        return None
    for d in fn.decorator_list:  # type: ignore[attr-defined]
        if not (isinstance(d, ast.Name) and d.id in ("staticmethod", "classmethod")):
            return None
    body = [s for i, s in enumerate(fn.body) if not (i == 0 and _doc(s))]  # type: ignore[attr-defined]
    rets = _tail_returns(body)
    if not body or rets is None or not rets:
        return None
    params = {x.arg for x in a.args + a.kwonlyargs} | ({a.vararg.arg} if a.vararg else set())
    for n in ast.walk(fn):
        if n is not fn and isinstance(n, (ast.FunctionDef, ast.AsyncFunctionDef, ast.Lambda, ast.Yield, ast.YieldFrom, ast.ClassDef, ast.Global, ast.Nonlocal)):
            return None
        if isinstance(n, ast.Name) and isinstance(n.ctx, (ast.Store, ast.Del)) and n.id in params:
            return None
        if isinstance(n, ast.Name) and n.id == fn.name:  # type: ignore[attr-defined]
            return None
    return body


def _ret_tree(stmts: List[ast.stmt]) -> Optional[ast.expr]:
    if len(stmts) == 1 and isinstance(stmts[0], ast.Return) and stmts[0].value is not None:
        return stmts[0].value
    if stmts and isinstance(stmts[0], ast.If):
        a = _ret_tree(stmts[0].body)
        if a is None:
            return None
        if stmts[0].orelse:
            if len(stmts) != 1:
                return None
            b = _ret_tree(stmts[0].orelse)
        else:
            b = _ret_tree(stmts[1:])
        if b is None:
            return None
        return ast.copy_location(ast.IfExp(test=stmts[0].test, body=a, orelse=b), stmts[0])
    return None


def _stored_names(nodes: List[ast.AST]) -> Set[str]:
    out = set()
    for r in nodes:
        for n in ast.walk(r):
            if isinstance(n, ast.Name) and isinstance(n.ctx, ast.Store):
                out.add(n.id)
    return out


class _Subst(ast.NodeTransformer):
    def __init__(self, mapping: Dict[str, ast.expr], rename: Dict[str, str]):
        self.mapping, self.rename = mapping, rename

    def visit_Name(self, node):
        if node.id in self.mapping and isinstance(node.ctx, ast.Load):
            return copy.deepcopy(self.mapping[node.id])
        if node.id in self.rename:
            return ast.copy_location(ast.Name(id=self.rename[node.id], ctx=node.ctx), node)
        return node


def _bind(fn: ast.AST, call: ast.Call, skip_first: bool) -> Optional[Dict[str, ast.expr]]:
    a = fn.args  # type: ignore[attr-defined]
    params = [x.arg for x in a.args]
    if skip_first and params:
        params = params[1:]
    kwonly = [x.arg for x in a.kwonlyargs]
    if any(isinstance(x, ast.Starred) for x in call.args) or any(k.arg is None for k in call.keywords):
        return None
    if len(call.args) > len(params) and not a.vararg:
        return None
    m: Dict[str, ast.expr] = {}
    for p, v in zip(params, call.args):
        m[p] = v
    if a.vararg:
        # *rest receives the surplus positional arguments as a tuple (a literal tuple here: loops over it can be unrolled)
        m[a.vararg.arg] = ast.Tuple(elts=list(call.args[len(params):]), ctx=ast.Load())
    for k in call.keywords:
        if k.arg in m or k.arg not in params + kwonly:
            return None
        m[k.arg] = k.value
    all_pos = [x.arg for x in a.args]
    defaults = dict(zip(all_pos[len(all_pos) - len(a.defaults):], a.defaults))
    for p, d in zip(kwonly, a.kw_defaults):
        if d is not None:
            defaults[p] = d
    for p in params + kwonly:
        if p not in m:
            if p not in defaults:
                return None
            m[p] = defaults[p]
    return m


def inline_new_helpers(tree: ast.Module, ref_functions: Set[str]) -> int:
    total = 0
    for _round in range(3):
        funcs = functions_of(tree)
        helpers = {}
        for q, (fn, cls) in funcs.items():
            if q in ref_functions or q.endswith(".setter"):
                continue
            el = _eligible(fn)
            if el is not None:
                helpers[q] = (fn, cls, el[0], el[1])
            else:
                sb = _stmt_eligible(fn)
                if sb is not None:
                    helpers[q] = (fn, cls, sb, None)  # spliced in statement position only
        if not helpers:
            break
        changed = 0
        for q, host, hcls in all_functions(tree):
            if q in helpers:
                continue
            changed += _inline_into(host, hcls, helpers)
        total += changed
        if not changed:
            break
    if total:
        # a new helper that is no longer referenced anywhere (every call was inlined) is not part of the analysed view
        funcs = functions_of(tree)
        for q, (fn, cls) in funcs.items():
            if q in ref_functions or q.endswith(".setter") or fn.name.startswith("__"):  # type: ignore[attr-defined]
                continue
            refs = 0
            for n in ast.walk(tree):
                if n is fn:
                    continue
                if isinstance(n, ast.Name) and n.id == fn.name:  # type: ignore[attr-defined]
                    refs += 1
                elif isinstance(n, ast.Attribute) and n.attr == fn.name:  # type: ignore[attr-defined]
                    refs += 1
                elif isinstance(n, ast.Constant) and n.value == fn.name:  # type: ignore[attr-defined]
                    refs += 1  # getattr(self, "name") style
            if refs == 0:
                owner = cls.body if cls is not None else tree.body
                if fn in owner and len(owner) > 1:
                    owner.remove(fn)
    return total


def _callee(call: ast.Call, hcls: Optional[ast.ClassDef], helpers) -> Optional[Tuple[str, bool]]:
    f = call.func
    if isinstance(f, ast.Name) and f.id in helpers and helpers[f.id][1] is None:
        return f.id, False
    if isinstance(f, ast.Attribute) and isinstance(f.value, ast.Name):
        owner = f.value.id
        if owner in ("self", "cls") and hcls is not None:
            q = f"{hcls.name}.{f.attr}"
            if q in helpers:
                return q, True
            for b in hcls.bases:
                if isinstance(b, ast.Name) and f"{b.id}.{f.attr}" in helpers:
                    return f"{b.id}.{f.attr}", True
        q = f"{owner}.{f.attr}"
        if q in helpers:
            fn = helpers[q][0]
            static = any(isinstance(d, ast.Name) and d.id == "staticmethod" for d in fn.decorator_list)
            cm = any(isinstance(d, ast.Name) and d.id == "classmethod" for d in fn.decorator_list)
            return (q, cm) if (static or cm) else None
    return None


def _inline_into(host: ast.AST, hcls: Optional[ast.ClassDef], helpers) -> int:
    n = 0

    def process_body(body: List[ast.stmt]) -> None:
        nonlocal n
        i = 0
        while i < len(body):
            st = body[i]
            for fld in ("body", "orelse", "finalbody"):
                sub = getattr(st, fld, None)
                if isinstance(sub, list) and sub and isinstance(sub[0], ast.stmt) and not isinstance(st, (ast.FunctionDef, ast.AsyncFunctionDef, ast.ClassDef)):
                    process_body(sub)
            if isinstance(st, ast.Try):
                for h in st.handlers:
                    process_body(h.body)
            if isinstance(st, (ast.FunctionDef, ast.AsyncFunctionDef, ast.ClassDef)):
                i += 1
                continue
            # expression parts of this statement only (not nested statement lists)
            exprs = []
            for f, v in ast.iter_fields(st):
                if f in ("body", "orelse", "finalbody", "handlers"):
                    continue
                if isinstance(v, ast.AST):
                    exprs.append(v)
                elif isinstance(v, list):
                    exprs += [x for x in v if isinstance(x, ast.AST)]
            target = None
            for e in exprs:
                for c in ast.walk(e):
                    if isinstance(c, ast.Call):
                        r = _callee(c, hcls, helpers)
                        if r is not None:
                            target = (c, r)
                            break
                if target:
                    break
            if not target:
                i += 1
                continue
            call, (q, bound) = target
            fn, _cls, pre, ret = helpers[q]
            if ret is None:
                # statement-position helper: only `x = h(..)`, `return h(..)`, `h(..)` are rewritten
                whole = (isinstance(st, ast.Assign) and len(st.targets) == 1 and isinstance(st.targets[0], ast.Name) and st.value is call) or \
                    (isinstance(st, (ast.Return, ast.Expr)) and st.value is call)
                first_s = fn.args.args[0].arg if (fn.args.args and bound) else None
                static_s = any(isinstance(d, ast.Name) and d.id == "staticmethod" for d in fn.decorator_list)
                m_s = _bind(fn, call, skip_first=bound and not static_s) if whole else None
                if m_s is None:
                    i += 1
                    continue
                if first_s and isinstance(call.func, ast.Attribute) and not static_s:
                    m_s[first_s] = call.func.value
                host_names = {x.id for x in ast.walk(host) if isinstance(x, ast.Name)} | {a.arg for a in host.args.args + host.args.kwonlyargs}  # type: ignore[attr-defined]
                rename = {v: v + "_inl" for v in _stored_names(list(pre)) if v in host_names}
                sub_s = _Subst(m_s, rename)
                new_body = [ast.copy_location(sub_s.visit(copy.deepcopy(s2)), st) for s2 in pre]

                class _R(ast.NodeTransformer):
                    def visit_Return(self, r):  # noqa: N802
                        v = r.value if r.value is not None else ast.Constant(value=None)
                        if isinstance(st, ast.Assign):
                            return ast.copy_location(ast.Assign(targets=[copy.deepcopy(st.targets[0])], value=v, type_comment=None), r)
                        if isinstance(st, ast.Return):
                            return ast.copy_location(ast.Return(value=v), r)
                        return ast.copy_location(ast.Expr(value=v), r)
                new_body = [ast.fix_missing_locations(_R().visit(s2)) for s2 in new_body]
                body[i:i + 1] = new_body
                n += 1
                continue
            first = fn.args.args[0].arg if (fn.args.args and bound) else None
            static = any(isinstance(d, ast.Name) and d.id == "staticmethod" for d in fn.decorator_list)
            m = _bind(fn, call, skip_first=bound and not static)
            if m is None:
                i += 1
                continue
            if first and isinstance(call.func, ast.Attribute) and not static:
                m[first] = call.func.value
            host_names = {x.id for x in ast.walk(host) if isinstance(x, ast.Name)} | {a.arg for a in host.args.args + host.args.kwonlyargs}  # type: ignore[attr-defined]
            locals_h = _stored_names(list(pre))
            rename = {v: (v if v not in host_names else v + "_inl") for v in locals_h}
            rename = {k: v for k, v in rename.items() if k != v}
            sub = _Subst(m, rename)
            new_pre = [ast.fix_missing_locations(ast.copy_location(sub.visit(copy.deepcopy(s)), st)) for s in pre]
            new_ret = sub.visit(copy.deepcopy(ret))
            if isinstance(st, ast.Expr) and st.value is call and isinstance(new_ret, ast.Constant) and new_ret.value is None and new_pre:
                body[i:i + 1] = new_pre  # a procedure call statement is replaced by the procedure's statements
                n += 1
                continue
            _replace(st, call, new_ret)
            ast.fix_missing_locations(st)
            body[i:i] = new_pre
            n += 1
            i += len(new_pre)  # re-examine the same statement for further calls
            _simplify(body, i)
        return
    process_body(host.body)  # type: ignore[attr-defined]
    if n:
        _collapse_copies(host)
    return n


def _collapse_copies(host: ast.AST) -> None:
    """`v_inl = E` ... `v = v_inl` (a helper local that had to be renamed because the caller binds the result to the same name):
    the helper local takes the caller's name and the copy disappears."""
    def lists(node):
        for x in ast.walk(node):
            for fld in ("body", "orelse", "finalbody"):
                b = getattr(x, fld, None)
                if isinstance(b, list) and b and isinstance(b[0], ast.stmt):
                    yield b
    for body in list(lists(host)):
        for st in list(body):
            if not (isinstance(st, ast.Assign) and len(st.targets) == 1 and isinstance(st.targets[0], ast.Name) and isinstance(st.value, ast.Name)
                    and st.value.id == st.targets[0].id + "_inl"):
                continue
            w, v = st.value.id, st.targets[0].id
            occ = [x for x in ast.walk(host) if isinstance(x, ast.Name) and x.id == w]
            stores = [x for x in occ if isinstance(x.ctx, ast.Store)]
            if len(stores) != 1 or stores[0].lineno > st.lineno if hasattr(stores[0], "lineno") and hasattr(st, "lineno") else False:
                continue
            # `v` itself must not be read between the definition of w and the copy (it would see the old value)
            i_copy = body.index(st)
            defs = [k for k, s2 in enumerate(body[:i_copy]) if any(x is stores[0] for x in ast.walk(s2))]
            if not defs:
                continue
            between = body[defs[0] + 1:i_copy]
            if any(isinstance(x, ast.Name) and x.id == v for s2 in between for x in ast.walk(s2)):
                continue
            for x in occ:
                x.id = v
            body.remove(st)


def _replace(root: ast.AST, old: ast.AST, new: ast.AST) -> None:
    for node in ast.walk(root):
        for f, v in ast.iter_fields(node):
            if v is old:
                setattr(node, f, new)
                return
            if isinstance(v, list):
                for k, x in enumerate(v):
                    if x is old:
                        v[k] = new
                        return


def _simplify(body: List[ast.stmt], i: int) -> None:
    """`a, b = (x, y)` -> `a = x; b = y`;  f(*(<tuple literal>), z) -> f(<elements>, z)."""
    st = body[i]
    for c in ast.walk(st):
        if isinstance(c, ast.Call) and any(isinstance(a, ast.Starred) and isinstance(a.value, (ast.Tuple, ast.List)) for a in c.args):
            new_args: List[ast.expr] = []
            for a in c.args:
                if isinstance(a, ast.Starred) and isinstance(a.value, (ast.Tuple, ast.List)):
                    new_args += a.value.elts
                else:
                    new_args.append(a)
            c.args = new_args
    if isinstance(st, ast.Assign) and len(st.targets) == 1 and isinstance(st.targets[0], ast.Tuple) and isinstance(st.value, ast.Tuple) \
            and len(st.targets[0].elts) == len(st.value.elts) and all(isinstance(t, ast.Name) for t in st.targets[0].elts):
        names = {t.id for t in st.targets[0].elts}
        used = {x.id for v in st.value.elts for x in ast.walk(v) if isinstance(x, ast.Name)}
        if not (names & used):
            body[i:i + 1] = [ast.fix_missing_locations(ast.copy_location(ast.Assign(targets=[t], value=v), st)) for t, v in zip(st.targets[0].elts, st.value.elts)]


def apply(relpath: str, tree: ast.Module, ref: Optional[dict]) -> Tuple[int, int]:
    if not ref or "__functions__" not in ref:
        return 0, 0
    c = propagate_new_constants(tree, set(ref.get("__consts__", [])))
    h = inline_new_helpers(tree, set(ref["__functions__"]))
    return c, h
