"""Reference local names.

Rules anchor on the local variable names of today's tree (e.g. `image_len`, `csf_offset`). A pure rename of a local is
behaviour preserving and must not raise an alarm. Each local gets a structural signature (how it is bound, with every local
name abstracted away); the signatures of the reference tree are frozen in sa/reference/locals.json. When a module is loaded,
a local whose reference name is missing but whose signature is carried by exactly one new local is renamed back to the
reference name (a consistent rename inside one function: semantics preserving, so nothing can be masked by it)."""
from __future__ import annotations

import ast
import hashlib
import json
import os
from typing import Dict, Iterator, List, Optional, Set, Tuple

REF_PATH = os.path.join(os.path.dirname(os.path.dirname(__file__)), "reference", "locals.json")
_SCOPES = (ast.FunctionDef, ast.AsyncFunctionDef, ast.Lambda, ast.ClassDef)


def iter_functions(tree: ast.AST, prefix: str = "") -> Iterator[Tuple[str, ast.AST]]:
    """(qualified name, node); a name defined several times in one scope (SLY grammar actions, typing overloads) gets #2, #3 ..."""
    seen: Dict[str, int] = {}
    for q, n in _iter_functions(tree, prefix):
        seen[q] = seen.get(q, 0) + 1
        yield (q if seen[q] == 1 else f"{q}#{seen[q]}"), n


def _iter_functions(tree: ast.AST, prefix: str = "") -> Iterator[Tuple[str, ast.AST]]:
    for n in getattr(tree, "body", []):
        if isinstance(n, (ast.FunctionDef, ast.AsyncFunctionDef)):
            q = prefix + n.name
            if any(isinstance(d, ast.Attribute) and d.attr == "setter" for d in n.decorator_list):
                q += ".setter"
            yield q, n
            yield from _iter_functions(n, q + ".<locals>.")
        elif isinstance(n, ast.ClassDef):
            yield from _iter_functions(n, prefix + n.name + ".")
        elif isinstance(n, (ast.If, ast.Try, ast.With, ast.For, ast.While)):
            for fld in ("body", "orelse", "finalbody", "handlers"):
                sub = getattr(n, fld, None)
                if isinstance(sub, list):
                    holder = ast.Module(body=[x for x in sub if isinstance(x, ast.stmt)], type_ignores=[])
                    yield from _iter_functions(holder, prefix)


def _own_nodes(fn: ast.AST) -> Iterator[ast.AST]:
    stack = list(ast.iter_child_nodes(fn))
    while stack:
        n = stack.pop()
        if isinstance(n, _SCOPES):
            continue
        yield n
        stack.extend(ast.iter_child_nodes(n))


def locals_of(fn: ast.AST) -> Set[str]:
    a = fn.args  # type: ignore[attr-defined]
    params = {x.arg for x in a.posonlyargs + a.args + a.kwonlyargs}
    if a.vararg:
        params.add(a.vararg.arg)
    if a.kwarg:
        params.add(a.kwarg.arg)
    banned = set(params)
    out = set()
    for n in _own_nodes(fn):
        if isinstance(n, (ast.Global, ast.Nonlocal)):
            banned.update(n.names)
        if isinstance(n, ast.Name) and isinstance(n.ctx, ast.Store):
            out.add(n.id)
        if isinstance(n, ast.ExceptHandler) and n.name:
            out.add(n.name)
    # comprehension targets live in their own scope
    for n in _own_nodes(fn):
        if isinstance(n, (ast.ListComp, ast.SetComp, ast.DictComp, ast.GeneratorExp)):
            for g in n.generators:
                for t in ast.walk(g.target):
                    if isinstance(t, ast.Name):
                        out.discard(t.id) if not _stored_outside_comprehensions(fn, t.id) else None
    return out - banned - {"_"}


def _stored_outside_comprehensions(fn: ast.AST, name: str) -> bool:
    stack = list(ast.iter_child_nodes(fn))
    while stack:
        n = stack.pop()
        if isinstance(n, _SCOPES) or isinstance(n, (ast.ListComp, ast.SetComp, ast.DictComp, ast.GeneratorExp)):
            continue
        if isinstance(n, ast.Name) and isinstance(n.ctx, ast.Store) and n.id == name:
            return True
        stack.extend(ast.iter_child_nodes(n))
    return False


def _abs(e: Optional[ast.AST], names: Set[str]) -> str:
    """unparse with every local name replaced by a placeholder (in place, restored afterwards: no copying)."""
    if e is None:
        return ""
    touched = []
    for n in ast.walk(e):
        if isinstance(n, ast.Name) and n.id in names:
            touched.append((n, n.id))
            n.id = "LOCAL"
    try:
        return ast.unparse(e)
    finally:
        for n, i in touched:
            n.id = i


def signatures(fn: ast.AST) -> Dict[str, str]:
    L = locals_of(fn)
    bind: Dict[str, List[str]] = {v: [] for v in L}

    def targets(t: ast.AST, kind: str, rhs: str, path: str = "") -> None:
        if isinstance(t, ast.Name) and t.id in bind:
            bind[t.id].append(f"{kind}{path}:{rhs}")
        elif isinstance(t, (ast.Tuple, ast.List)):
            for i, x in enumerate(t.elts):
                targets(x, kind, rhs, f"{path}.{i}")
        elif isinstance(t, ast.Starred):
            targets(t.value, kind, rhs, path + "*")
    nodes = sorted((n for n in _own_nodes(fn) if hasattr(n, "lineno")), key=lambda n: (n.lineno, n.col_offset))
    for n in nodes:
        if isinstance(n, ast.Assign):
            for t in n.targets:
                targets(t, "=", _abs(n.value, L))
        elif isinstance(n, ast.AugAssign):
            targets(n.target, "aug" + type(n.op).__name__, _abs(n.value, L))
        elif isinstance(n, ast.AnnAssign) and n.value is not None:
            targets(n.target, "=", _abs(n.value, L))
        elif isinstance(n, (ast.For, ast.AsyncFor)):
            targets(n.target, "for", _abs(n.iter, L))
        elif isinstance(n, (ast.With, ast.AsyncWith)):
            for it in n.items:
                if it.optional_vars is not None:
                    targets(it.optional_vars, "with", _abs(it.context_expr, L))
        elif isinstance(n, ast.ExceptHandler) and n.name and n.name in bind:
            bind[n.name].append("except:" + _abs(n.type, L))
        elif isinstance(n, ast.NamedExpr):
            targets(n.target, ":=", _abs(n.value, L))
    # uses: how often the name is read (distinguishes e.g. two `x = 0` counters a little further)
    reads: Dict[str, int] = {v: 0 for v in L}
    for n in _own_nodes(fn):
        if isinstance(n, ast.Name) and isinstance(n.ctx, ast.Load) and n.id in reads:
            reads[n.id] += 1
    return {v: hashlib.sha256(("|".join(bind[v]) + f"#{reads[v]}").encode()).hexdigest()[:12] for v in L}


def first_binding_order(fn: ast.AST, names: Set[str]) -> Dict[str, int]:
    pos: Dict[str, Tuple[int, int]] = {}
    for n in _own_nodes(fn):
        if isinstance(n, ast.Name) and isinstance(n.ctx, ast.Store) and n.id in names:
            p = (n.lineno, n.col_offset)
            if n.id not in pos or p < pos[n.id]:
                pos[n.id] = p
        elif isinstance(n, ast.ExceptHandler) and n.name in names:
            p = (n.lineno, n.col_offset)
            if n.name not in pos or p < pos[n.name]:
                pos[n.name] = p
    order = sorted(pos, key=lambda v: pos[v])
    return {v: i for i, v in enumerate(order)}


def single_rhs(fn: ast.AST, names: Set[str]) -> Dict[str, str]:
    """For locals bound exactly once by a plain `name = expr`: the RHS text with local names abstracted."""
    count: Dict[str, int] = {}
    rhs: Dict[str, ast.expr] = {}
    for n in _own_nodes(fn):
        if isinstance(n, ast.Name) and isinstance(n.ctx, ast.Store) and n.id in names:
            count[n.id] = count.get(n.id, 0) + 1
        if isinstance(n, ast.Assign) and len(n.targets) == 1 and isinstance(n.targets[0], ast.Name) and n.targets[0].id in names:
            rhs[n.targets[0].id] = n.value
    return {v: _abs(e, names) for v, e in rhs.items() if count.get(v) == 1}


def table_for(tree: ast.Module) -> Dict[str, Dict[str, List]]:
    out = {}
    for q, fn in iter_functions(tree):
        s = signatures(fn)
        if s:
            o = first_binding_order(fn, set(s))
            r = single_rhs(fn, set(s))
            out[q] = {v: [sig, o.get(v, 999)] + ([r[v]] if v in r else []) for v, sig in s.items()}
    return out


_REF: Optional[Dict[str, Dict[str, Dict[str, str]]]] = None


def reference() -> Dict[str, Dict[str, Dict[str, str]]]:
    global _REF
    if _REF is None:
        try:
            with open(REF_PATH, encoding="utf-8") as f:
                _REF = json.load(f)
        except FileNotFoundError:
            _REF = {}
    return _REF


def restore(relpath: str, tree: ast.Module, src_digest: str = "") -> int:
    """Rename pure-renamed locals back to their reference names. Returns the number of renames applied."""
    ref = reference().get(relpath)
    if not ref:
        return 0
    if src_digest and ref.get("__digest__") == src_digest:
        return 0  # the module is the reference module
    n = 0
    for q, fn in iter_functions(tree):
        r = ref.get(q)
        if not r or not isinstance(r, dict) or q.startswith("__"):
            continue
        names = locals_of(fn)
        missing = [v for v in r if v not in names]
        if not missing:
            continue
        cur = signatures(fn)
        extra = [v for v in cur if v not in r]
        cur_order = first_binding_order(fn, set(cur))
        ren: Dict[str, str] = {}
        by_sig_missing: Dict[str, List[str]] = {}
        for v in missing:
            by_sig_missing.setdefault(r[v][0], []).append(v)
        for sig, ms in by_sig_missing.items():
            cands = [e for e in extra if cur[e] == sig]
            if len(cands) != len(ms):
                continue  # not a pure rename of this group
            ms.sort(key=lambda v: r[v][1])
            cands.sort(key=lambda e: cur_order.get(e, 999))
            for e, v in zip(cands, ms):
                ren[e] = v
        if not ren:
            continue
        for node in ast.walk(fn):
            if isinstance(node, ast.Name) and node.id in ren:
                node.id = ren[node.id]
            elif isinstance(node, ast.ExceptHandler) and node.name in ren:
                node.name = ren[node.name]
        n += len(ren)
    return n


def _stmt_lists(fn: ast.AST):
    """(list, index, stmt) for every statement of the function (not nested scopes)."""
    stack = [fn.body]  # type: ignore[attr-defined]
    while stack:
        body = stack.pop()
        for i, st in enumerate(body):
            yield body, i, st
            if isinstance(st, _SCOPES):
                continue
            for fld in ("body", "orelse", "finalbody"):
                sub = getattr(st, fld, None)
                if isinstance(sub, list) and sub and isinstance(sub[0], ast.stmt):
                    stack.append(sub)
            if isinstance(st, ast.Try):
                for h in st.handlers:
                    stack.append(h.body)


def settle_temporaries(relpath: str, tree: ast.Module) -> Tuple[int, int]:
    """Bring the set of single-use temporaries of every function back to the reference: a NEW single-assignment local (not in the
    reference function) is inlined into its uses; a MISSING reference local whose defining expression still occurs (exactly once) in
    the function is re-introduced in front of the statement that contains it. Both are semantics-preserving views for analysis."""
    import copy
    ref = reference().get(relpath)
    if not ref:
        return 0, 0
    removed = added = 0
    known_functions = set(ref.get("__functions__", []))
    for q, fn in iter_functions(tree):
        r = ref.get(q)
        if r is None and q.split("#")[0] in known_functions and "#" not in q:
            r = {}  # a reference function without locals
        if not isinstance(r, dict) or q.startswith("__"):
            continue
        cur = locals_of(fn)
        # ---- inline new temporaries
        new = [v for v in cur if v not in r]
        for v in new:
            stores = [n for n in _own_nodes(fn) if isinstance(n, ast.Name) and n.id == v and isinstance(n.ctx, ast.Store)]
            if len(stores) != 1:
                continue
            site = None
            for body, i, st in _stmt_lists(fn):
                if isinstance(st, ast.Assign) and len(st.targets) == 1 and st.targets[0] is stores[0]:
                    site = (body, i, st)
            if site is None:
                continue
            body, i, st = site
            # not inside a loop body relative to its uses: keep it simple - all uses must come later in the same statement list or nested in later statements
            later = body[i + 1:]
            uses_later = [n for s2 in later for n in ast.walk(s2) if isinstance(n, ast.Name) and n.id == v and isinstance(n.ctx, ast.Load)]
            all_uses = [n for n in ast.walk(fn) if isinstance(n, ast.Name) and n.id == v and isinstance(n.ctx, ast.Load)]
            if not all_uses or len(uses_later) != len(all_uses):
                continue
            if len(all_uses) > 1:
                # several uses: only a pure expression over names that are bound once may be duplicated
                pure = not any(isinstance(n, (ast.Call, ast.Await, ast.Yield, ast.YieldFrom, ast.ListComp, ast.SetComp, ast.DictComp, ast.GeneratorExp, ast.Lambda, ast.NamedExpr, ast.Starred))
                               for n in ast.walk(st.value))
                once = all(sum(1 for x in _own_nodes(fn) if isinstance(x, ast.Name) and x.id == n.id and isinstance(x.ctx, (ast.Store, ast.Del))) <= 1
                           for n in ast.walk(st.value) if isinstance(n, ast.Name))
                if not (pure and once) or len(all_uses) > 6:
                    continue
            # an accumulator (receiver of a method call, subscripted, container literal) is not a temporary
            if isinstance(st.value, (ast.List, ast.Dict, ast.Set, ast.ListComp, ast.DictComp, ast.SetComp)) or (isinstance(st.value, ast.Call) and isinstance(st.value.func, ast.Name) and st.value.func.id in ("list", "dict", "set", "bytearray")):
                # a container that is only read once (iterated, passed on) is a temporary; one that is touched in place is not
                touched = any((isinstance(n, ast.Attribute) and isinstance(n.value, ast.Name) and n.value.id == v) or
                              (isinstance(n, ast.Subscript) and isinstance(n.value, ast.Name) and n.value.id == v and isinstance(n.ctx, (ast.Store, ast.Del))) or
                              (isinstance(n, ast.AugAssign) and isinstance(n.target, ast.Name) and n.target.id == v) for n in ast.walk(fn))
                if touched or len(all_uses) != 1 or not isinstance(st.value, (ast.ListComp, ast.DictComp, ast.SetComp)):
                    continue
            if any(isinstance(n, ast.Attribute) and isinstance(n.value, ast.Name) and n.value.id == v for n in ast.walk(fn)) and \
                    any(isinstance(c, ast.Call) and isinstance(c.func, ast.Attribute) and isinstance(c.func.value, ast.Name) and c.func.value.id == v for c in ast.walk(fn)):
                continue
            for s2 in later:
                for node in ast.walk(s2):
                    for f, val in ast.iter_fields(node):
                        if isinstance(val, ast.Name) and val.id == v and isinstance(val.ctx, ast.Load):
                            setattr(node, f, copy.deepcopy(st.value))
                        elif isinstance(val, list):
                            for k2, x in enumerate(val):
                                if isinstance(x, ast.Name) and x.id == v and isinstance(x.ctx, ast.Load):
                                    val[k2] = copy.deepcopy(st.value)
            del body[i]
            removed += 1
        # ---- re-introduce missing temporaries
        cur = locals_of(fn)
        missing = [(v, spec) for v, spec in r.items() if v not in cur and isinstance(spec, list) and len(spec) >= 3]
        missing.sort(key=lambda t: t[1][1])
        for v, spec in missing:
            want = spec[2]
            names = locals_of(fn)
            hits = []
            for body, i, st in _stmt_lists(fn):
                if isinstance(st, _SCOPES):
                    continue
                for f, val in ast.iter_fields(st):
                    if f in ("body", "orelse", "finalbody", "handlers"):
                        continue
                    roots = [val] if isinstance(val, ast.AST) else [x for x in val if isinstance(x, ast.AST)] if isinstance(val, list) else []
                    for root in roots:
                        specs = {id(n.format_spec) for n in ast.walk(root) if isinstance(n, ast.FormattedValue) and n.format_spec is not None}
                        for node in ast.walk(root):
                            if id(node) in specs:
                                continue  # a format spec is not an expression position
                            if isinstance(node, ast.expr) and not isinstance(node, (ast.Name, ast.Constant)) and not isinstance(getattr(node, "ctx", None), ast.Store) and _abs(node, names) == want:
                                hits.append((body, i, st, node))
            if len(hits) != 1:
                continue
            body, i, st, node = hits[0]
            if isinstance(st, ast.Assign) and st.value is node and len(st.targets) == 1 and isinstance(st.targets[0], ast.Name):
                continue  # it is simply bound to another name: a rename the signature test did not accept
            new_name = ast.Name(id=v, ctx=ast.Load())
            ast.copy_location(new_name, node)
            for parent in ast.walk(st):
                for f, val in ast.iter_fields(parent):
                    if val is node:
                        setattr(parent, f, new_name)
                    elif isinstance(val, list):
                        for k2, x in enumerate(val):
                            if x is node:
                                val[k2] = new_name
            asg = ast.Assign(targets=[ast.Name(id=v, ctx=ast.Store())], value=node, type_comment=None)
            ast.copy_location(asg, st)
            ast.fix_missing_locations(asg)
            body.insert(i, asg)
            added += 1
    return removed, added
