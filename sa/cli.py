from __future__ import annotations

import argparse
import importlib
import json
import ast
import os
import sys
import traceback
from typing import Dict, List, Optional

from .core.loader import AnalysisError, Repo
from .core.report import VERIF, Check
from .core.symtab import Program

ALL = [f"C{i:02d}" for i in range(1, 21)]


class Ctx:
    def __init__(self, prop: str, tier: str, root: str, overlays: Optional[Dict[str, str]] = None):
        self.chk = Check(prop, tier, root)
        self.repo = Repo(root, overlays)
        self.prog = Program(self.repo)
        self.tier = tier
        self.root = root

    def vnorm(self, fn, node_or_text) -> str:
        """Value-normal text of an expression in the context of function `fn`: every sub-expression that folds to an int/str/bytes
        (named constants, calcsize(...), arithmetic on them) is replaced by its value, so `x * 16` and `x * Block.SIZE` compare equal."""
        import ast as _ast
        from .core.report import norm as _norm
        from .core.symtab import UNKNOWN as _UNK
        node = _ast.parse(node_or_text, mode="eval").body if isinstance(node_or_text, str) else node_or_text
        prog = self.prog

        class T(_ast.NodeTransformer):
            def generic_visit(s2, n):
                if isinstance(n, _ast.expr) and not isinstance(n, _ast.Constant):
                    try:
                        v = prog.fold(n, fn.module, fn.cls)
                    except Exception:  # noqa
                        v = _UNK
                    if isinstance(v, (int, str, bytes)) and not isinstance(v, bool):
                        return _ast.Constant(value=v)
                return super().generic_visit(n)
        from .core import astutil as _A
        return _norm(T().visit(_A.clone(node)))

    def borrow(self, fn, src_prefix: str, dst_prefix: str, *args) -> None:
        """Run a rule of another property and take over the obligations whose rule name starts with src_prefix, renamed to
        dst_prefix (shared mechanisms: one rule implementation, reported under the property that relies on it)."""
        shadow = Check(self.chk.prop, self.chk.tier, self.repo.root)
        real, self.chk = self.chk, shadow
        try:
            fn(self, *args)
        finally:
            self.chk = real
        for o in shadow.obligations:
            if not o["rule"].startswith(src_prefix):
                continue
            r = dst_prefix + o["rule"][len(src_prefix):]
            if o["verdict"] == "discharged":
                real.ok(r, o["construct"], o["fact"])
            else:
                real.bad(r, o["construct"], o["fact"], o.get("detail", ""), o.get("location", ""))
        real.analysis_errors += shadow.analysis_errors
        for u in shadow.functions_analysed:
            real.functions_analysed.add(u) if isinstance(real.functions_analysed, set) else None

    def subst_fold(self, e, mapping, m, c=None):
        """Fold `e` after replacing sub-expressions (matched by normalised text) with the constants of `mapping`."""
        import ast as _ast
        import math as _math
        from .core import astutil as _A
        from .core.report import norm as _norm
        prog = self.prog

        def rec(n):
            if isinstance(n, _ast.expr):
                t = _norm(n)
                if t in mapping:
                    return _ast.Constant(value=mapping[t])
            if not list(_ast.iter_child_nodes(n)):
                return _A.clone(n)
            new = type(n)()
            for f, v in _ast.iter_fields(n):
                if isinstance(v, list):
                    setattr(new, f, [rec(x) if isinstance(x, _ast.AST) else x for x in v])
                elif isinstance(v, _ast.AST):
                    setattr(new, f, rec(v))
                else:
                    setattr(new, f, v)
            return new

        class T(_ast.NodeTransformer):
            def visit_Call(s2, n):  # noqa: N802,N805
                s2.generic_visit(n)
                if _norm(n.func) in ("math.ceil", "ceil") and len(n.args) == 1:
                    v = prog.fold(n.args[0], m, c)
                    if isinstance(v, (int, float)):
                        return _ast.Constant(value=_math.ceil(v))
                return n
        return prog.fold(_ast.fix_missing_locations(T().visit(rec(e))), m, c)

    def model_calls(self, extra=None, sym_map=None, max_depth: int = 4, classes=None, module=None):
        """A call_value for the evaluator that steps INTO methods of the analysed program: a call `obj.m(args)` whose receiver is a model
        object tagged with its class (Obj(_cls=<ClassInfo>)) evaluates the body of the method the MRO selects, on the same model
        (interprocedural finite-model evaluation; properties with a single `return` are read the same way via model_attr).
        `extra(call, evaluator)` models the leaves (ciphers, hashes, ...) and takes precedence."""
        import ast as _ast
        from .core import astutil as _A
        from .engines import ordereval as _oe
        prog = self.prog
        ctx = self

        def run_method(m, recv, call, ev, depth):
            params = [a.arg for a in m.node.args.args]
            is_static = recv is None or any(isinstance(d, _ast.Name) and d.id == "staticmethod" for d in m.node.decorator_list)
            env = {}
            names = params if is_static else params[1:]
            if not is_static and params:
                env[params[0]] = recv
            argvals = []
            for a in call.args:
                if isinstance(a, _ast.Starred):
                    sv = ev.ev(a.value)
                    if not isinstance(sv, (tuple, list)):
                        return _oe.NOT_MODELLED
                    argvals.extend(sv)
                else:
                    argvals.append(ev.ev(a))
            va = m.node.args.vararg.arg if m.node.args.vararg is not None else None
            if len(argvals) > len(names) and va is None:
                return _oe.NOT_MODELLED
            if va is not None:
                env[va] = tuple(argvals[len(names):])  # *args: the surplus positional arguments
                argvals = argvals[:len(names)]
            for n_, av in zip(names, argvals):
                env[n_] = av
            for k in call.keywords:
                if k.arg is None or k.arg not in names + [a.arg for a in m.node.args.kwonlyargs]:
                    return _oe.NOT_MODELLED
                env[k.arg] = ev.ev(k.value)
            defaults = dict(zip(params[len(params) - len(m.node.args.defaults):], m.node.args.defaults))
            for a, d in zip(m.node.args.kwonlyargs, m.node.args.kw_defaults):
                if d is not None:
                    defaults[a.arg] = d
            for n_ in names + [a.arg for a in m.node.args.kwonlyargs]:
                if n_ not in env:
                    if n_ not in defaults:
                        return _oe.NOT_MODELLED
                    try:
                        env[n_] = _oe.Evaluator({}, ctx.fold_sym(m, sym_map)).ev(defaults[n_])
                    except _oe.Unsupported:
                        # a default written as a bare class-body name (`flags: int = FLAGS_DFLT`): the class constant of that name
                        dn = defaults[n_]
                        hit = None
                        if isinstance(dn, _ast.Name) and m.cls is not None:
                            for kk in prog.mro(m.cls):
                                if dn.id in kk.consts:
                                    hit = prog.fold(kk.consts[dn.id], kk.module, kk)
                                    break
                        if not isinstance(hit, (int, str, bytes)):
                            raise
                        env[n_] = hit
            env["__class__"] = m.cls
            def sub_cv(c2, e2, _d=depth + 1):
                return cv(c2, e2, _d)
            sub_cv.store_attr = store_attr
            sub = _oe.Evaluator(env, ctx.fold_sym(m, sym_map), opaque_return=False, call_value=sub_cv)
            out = sub.run(_A.body_of(m.node))
            if out.kind == "raise":
                raise _oe.ModelRaise(out)
            return out.value if out.kind == "return" else None

        def cv(call, ev, depth=0):
            if extra is not None:
                v = extra(call, ev)
                if v is not _oe.NOT_MODELLED:
                    return v
            if isinstance(call.func, _ast.Name) and call.func.id == "isinstance" and len(call.args) == 2 and not call.keywords and "isinstance" not in ev.env:
                # isinstance(x, K) / isinstance(x, (K1, K2)) against classes of the analysed program: decided on the model object's class
                try:
                    ks = [ev.ev(n_) for n_ in (call.args[1].elts if isinstance(call.args[1], _ast.Tuple) else [call.args[1]])]
                    v = ev.ev(call.args[0])
                except _oe.Unsupported:
                    return _oe.NOT_MODELLED
                if ks and all(isinstance(k_, _oe.Obj) and set(k_.__dict__) == {"_cls"} for k_ in ks):
                    vk = v.__dict__.get("_cls") if isinstance(v, _oe.Obj) and set(v.__dict__) != {"_cls"} else None
                    return vk is not None and any(k_.__dict__["_cls"] in prog.mro(vk) for k_ in ks)
                return _oe.NOT_MODELLED
            if isinstance(call.func, _ast.Name) and call.func.id in ("len", "str", "bool") and len(call.args) == 1 and not call.keywords and call.func.id not in ev.env and depth < max_depth:
                # len(x) / str(x) / bool(x) on a class-tagged model object: the class's own __len__ / __str__ / __bool__
                try:
                    v = ev.ev(call.args[0])
                except _oe.Unsupported:
                    return _oe.NOT_MODELLED
                if isinstance(v, _oe.Obj) and "_cls" in v.__dict__ and set(v.__dict__) != {"_cls"} and not (call.func.id == "len" and "len" in v.__dict__):
                    # (a model object that carries its own `len` is a stand-in whose length is part of the model)
                    dm = prog.find_method(v.__dict__["_cls"], {"len": "__len__", "str": "__str__", "bool": "__bool__"}[call.func.id])
                    if dm is not None:
                        fake = _ast.copy_location(_ast.Call(func=_ast.Attribute(value=call.args[0], attr=dm.name, ctx=_ast.Load()), args=[], keywords=[]), call)
                        return run_method(dm, v, fake, ev, depth)
                return _oe.NOT_MODELLED
            if depth < max_depth and isinstance(call.func, _ast.Subscript):
                # <table>[key](...) where the table holds classes of the analysed program (a registry of record classes): the class selected
                # by the key is instantiated through its own __init__
                try:
                    kv = ev.ev(call.func)
                except _oe.Unsupported:
                    kv = None
                if isinstance(kv, _oe.Obj) and set(kv.__dict__) == {"_cls"}:
                    k0 = kv.__dict__["_cls"]
                    obj = _oe.Obj(_cls=k0)
                    init = prog.find_method(k0, "__init__")
                    if init is not None:
                        run_method(init, obj, call, ev, depth)
                    elif call.args or call.keywords:
                        return _oe.NOT_MODELLED
                    return obj
                return _oe.NOT_MODELLED
            cls_standin = ev.env.get(call.func.id) if isinstance(call.func, _ast.Name) else None
            if depth < max_depth and isinstance(cls_standin, _oe.Obj) and set(cls_standin.__dict__) == {"_cls"}:
                # cls(...) inside a class method: `cls` is the class stand-in the method was entered with
                k0 = cls_standin.__dict__["_cls"]
                obj = _oe.Obj(_cls=k0)
                init = prog.find_method(k0, "__init__")
                if init is not None:
                    run_method(init, obj, call, ev, depth)
                elif call.args or call.keywords:
                    return _oe.NOT_MODELLED
                return obj
            if depth < max_depth and classes and isinstance(call.func, _ast.Name) and call.func.id in classes and call.func.id not in ev.env:
                # ClassName(...): a fresh model object of that class, initialised by the __init__ the MRO selects
                k0 = classes[call.func.id]
                obj = _oe.Obj(_cls=k0)
                init = prog.find_method(k0, "__init__")
                if init is not None:
                    run_method(init, obj, call, ev, depth)
                elif call.args or call.keywords:
                    return _oe.NOT_MODELLED
                return obj
            if depth < max_depth and module is not None and isinstance(call.func, _ast.Name) and call.func.id not in ev.env:
                # a plain function of the analysed module (a shared predicate such as check_range): stepped into
                try:
                    fi = ctx.func(module, call.func.id)
                except Exception:  # noqa: BLE001
                    fi = None
                if fi is not None and not fi.node.decorator_list:
                    return run_method(fi, None, call, ev, depth)
                return _oe.NOT_MODELLED
            if depth >= max_depth or not isinstance(call.func, _ast.Attribute):
                return _oe.NOT_MODELLED
            if isinstance(call.func.value, _ast.Call) and isinstance(call.func.value.func, _ast.Name) and call.func.value.func.id == "super" and len(call.func.value.args) in (0, 2):
                # super().m(...) / super(K, self).m(...): the next definition of m after the class whose method is being evaluated
                here = ev.env.get("__class__")
                me = ev.env.get("self", ev.env.get("cls"))
                if call.func.value.args:
                    a_k, a_me = call.func.value.args
                    try:
                        me = ev.ev(a_me)
                    except _oe.Unsupported:
                        return _oe.NOT_MODELLED
                    rk = prog.resolve(here.module, a_k.id) if isinstance(a_k, _ast.Name) and here is not None else None
                    here = rk if hasattr(rk, "methods") else here
                if here is None or not isinstance(me, _oe.Obj) or "_cls" not in me.__dict__:
                    return _oe.NOT_MODELLED
                chain = prog.mro(me.__dict__["_cls"])
                after = chain[chain.index(here) + 1:] if here in chain else []
                for kk in after:
                    for cand in kk.methods.get(call.func.attr, []):
                        return run_method(cand, me, call, ev, depth)
                if call.func.attr == "__init__":
                    return None  # object.__init__
                return _oe.NOT_MODELLED
            try:
                maybe_enum = ev.ev(call.func.value) if isinstance(call.func.value, (_ast.Name, _ast.Attribute)) else None
            except _oe.Unsupported:
                maybe_enum = None
            if isinstance(maybe_enum, _oe.EnumModel):
                a0 = ev.ev(call.args[0]) if call.args else None
                ms = maybe_enum.members()
                how = call.func.attr
                if how in ("from_tag", "from_label", "from_attr", "get_label", "get_tag", "get_description", "contains") and len(call.args) >= 1:
                    hit = [m_ for m_ in ms if (how in ("from_tag", "get_label", "get_description") and m_.tag == a0) or (how in ("from_label", "get_tag") and isinstance(a0, str) and m_.label.upper() == a0.upper())
                           or (how in ("from_attr", "contains") and (m_ is a0 or (isinstance(a0, int) and not isinstance(a0, bool) and m_.tag == a0) or (isinstance(a0, str) and m_.label.upper() == a0.upper())))]
                    if how == "contains":
                        return bool(hit)
                    if not hit:
                        if maybe_enum.__dict__.get("_soft") and how == "from_tag" and isinstance(a0, int):
                            return _oe.EnumMember(_enum=maybe_enum.__dict__["_enumcls"].name, name=f"Unknown_{a0:#x}", tag=a0, label=f"Unknown ({a0:#x})", description=None)
                        raise _oe.ModelRaise(_oe.Outcome("raise", None, call))
                    return {"get_label": hit[0].label, "get_tag": hit[0].tag, "get_description": hit[0].description}.get(how, hit[0])
                if how == "tags" and not call.args:
                    return tuple(m_.tag for m_ in ms)
                if how == "labels" and not call.args:
                    return tuple(m_.label for m_ in ms)
                return _oe.NOT_MODELLED
            if classes and isinstance(call.func.value, _ast.Name) and call.func.value.id in classes and call.func.value.id not in ev.env:
                # ClassName.static_or_class_method(...)
                k0 = classes[call.func.value.id]
                m0 = prog.find_method(k0, call.func.attr)
                if m0 is not None and any(isinstance(d, _ast.Name) and d.id in ("staticmethod", "classmethod") for d in m0.node.decorator_list):
                    return run_method(m0, ctx.class_standin(k0), call, ev, depth)
                return _oe.NOT_MODELLED
            try:
                recv = ev.ev(call.func.value)
            except _oe.Unsupported:
                return _oe.NOT_MODELLED
            k = recv.__dict__.get("_cls") if isinstance(recv, _oe.Obj) else None
            if k is None:
                return _oe.NOT_MODELLED
            m = prog.find_method(k, call.func.attr)
            if m is None:
                if not call.args and not call.keywords:
                    # attribute read on a class-tagged model object that is neither a data attribute nor a property: a class constant
                    for kk in prog.mro(k):
                        if call.func.attr in kk.consts:
                            class _Ctx:  # the constant is folded / evaluated in the context of the class that defines it
                                module, cls, node = kk.module, kk, kk.node
                            try:
                                return _oe.Evaluator({}, ctx.fold_sym(_Ctx, sym_map), opaque_return=False).ev(kk.consts[call.func.attr])
                            except _oe.Unsupported:
                                return _oe.NOT_MODELLED
                return _oe.NOT_MODELLED
            return run_method(m, recv, call, ev, depth)

        def store_attr(base, attr, value, ev, st):
            """`obj.attr = value` on a class-tagged model object whose class defines `attr` as a property with a setter."""
            k = base.__dict__.get("_cls")
            if k is None:
                return False
            for kk in prog.mro(k):
                for cand in kk.methods.get(attr, []):
                    if any(isinstance(d, _ast.Attribute) and d.attr == "setter" for d in cand.node.decorator_list):
                        tmp = "__setval"
                        ev.env[tmp] = value
                        try:
                            fake = _ast.copy_location(_ast.Call(func=_ast.Attribute(value=_ast.Name(id="self", ctx=_ast.Load()), attr=attr, ctx=_ast.Load()),
                                                                args=[_ast.Name(id=tmp, ctx=_ast.Load())], keywords=[]), st)
                            run_method(cand, base, fake, ev, 0)
                        finally:
                            ev.env.pop(tmp, None)
                        return True
            return False
        cv.store_attr = store_attr
        return cv

    def new_helpers_called(self, fn):
        """Module-level functions / methods of fn's class that fn calls and that do not exist in the reference tree (helpers a
        refactoring extracted): rules that describe `fn` may have to look into them."""
        import ast as _ast
        from .core import reflocals as _rl
        ref = _rl.reference().get(fn.module.relpath) or {}
        known = set(ref.get("__functions__", []))
        out = []
        for c in _ast.walk(fn.node):
            if not isinstance(c, _ast.Call):
                continue
            cand = None
            if isinstance(c.func, _ast.Name):
                cand = self.prog.functions.get(f"{fn.module.relpath}::{c.func.id}") if hasattr(self.prog, "functions") else None
                if cand is None:
                    try:
                        cand = self.func(fn.module.relpath, c.func.id)
                    except Exception:  # noqa: BLE001
                        cand = None
                key = c.func.id
            elif isinstance(c.func, _ast.Attribute) and isinstance(c.func.value, _ast.Name) and c.func.value.id in ("self", "cls") and fn.cls is not None:
                cand = self.prog.find_method(fn.cls, c.func.attr)
                key = f"{cand.cls.name}.{c.func.attr}" if cand is not None and cand.cls is not None else c.func.attr
            if cand is not None and key not in known and cand not in out and cand.node is not fn.node:
                out.append(cand)
        return out

    def prop_inline(self, fn, e, depth: int = 2):
        """`self.X` / `cls.X` where X is a property of fn's class (MRO) whose body is a single `return <expr>` is replaced by <expr>."""
        import ast as _ast
        from .core import astutil as _A
        if fn.cls is None or depth <= 0:
            return e
        prog = self.prog
        cls = fn.cls

        class T(_ast.NodeTransformer):
            def visit_Attribute(s2, n):  # noqa: N802,N805
                s2.generic_visit(n)
                if isinstance(n.value, _ast.Name) and n.value.id == "self" and isinstance(n.ctx, _ast.Load):
                    m = prog.find_method(cls, n.attr)
                    if m is not None and any(isinstance(d, _ast.Name) and d.id == "property" for d in m.node.decorator_list):
                        body = _A.body_of(m.node)
                        if len(body) == 1 and isinstance(body[0], _ast.Return) and body[0].value is not None:
                            return _A.clone(body[0].value)
                return n
        return T().visit(_A.clone(e))

    def class_standin(self, k):
        """The one model value that stands for class `k` itself (what `cls` is bound to in a class method; `K` as a value)."""
        from .engines import ordereval as _oe
        cache = self.__dict__.setdefault("_class_standins", {})
        if k.qual not in cache:
            cache[k.qual] = _oe.Obj(_cls=k)
        return cache[k.qual]

    def enum_model(self, k):
        """The model of an SpsdkEnum class (None if `k` is not one): members with tag / label / description, cached per program."""
        from .engines import ordereval as _oe
        cache = self.__dict__.setdefault("_enum_models", {})
        if k.qual in cache:
            return cache[k.qual]
        model = None
        if any(b.name in ("SpsdkEnum", "SpsdkSoftEnum") for b in self.prog.mro(k)[1:]):
            members = []
            for kk in reversed(self.prog.mro(k)):
                for n_, v_ in kk.consts.items():
                    val = self.prog.fold(v_, kk.module, kk)
                    if isinstance(val, tuple) and len(val) >= 2 and isinstance(val[0], int) and isinstance(val[1], str):
                        members.append(_oe.EnumMember(_enum=k.name, name=n_, tag=val[0], label=val[1], description=val[2] if len(val) > 2 else None))
            if members:
                model = _oe.EnumModel(_enumcls=k, _members=tuple(members), _soft=any(b.name == "SpsdkSoftEnum" for b in self.prog.mro(k)), **{m.name: m for m in members})
        cache[k.qual] = model
        return model

    def fold_sym(self, fn, mapping=None):
        """A `sym` function for the evaluator: values for the expressions named in `mapping` (by normalised text), and the folded
        value of named constants / calcsize(...) in the context of function `fn` (so `16`, `Cls.SIZE` and `calcsize('<4L')` agree)."""
        import ast as _ast
        from .core.report import norm as _norm
        from .core.symtab import UNKNOWN as _UNK
        mapping = dict({"Endianness.LITTLE.value": "little", "Endianness.BIG.value": "big"}, **(mapping or {}))
        prog = self.prog

        def sym(x):
            t = _norm(x)
            if t in mapping:
                return mapping[t]
            dyn_fmt = isinstance(x, _ast.Call) and _norm(x.func) in ("calcsize", "struct.calcsize") and any(
                isinstance(c_, _ast.Call) and isinstance(c_.func, _ast.Attribute) and isinstance(c_.func.value, _ast.Name) and c_.func.value.id in ("cls", "self") for c_ in _ast.walk(x))
            # calcsize(cls.format()) / calcsize(self.format()): the format builder is dispatched on the object's dynamic class by the evaluator
            # (a static fold would take the defining class's builder - the empty base format for the AHAB containers)
            if not dyn_fmt and (isinstance(x, (_ast.Name, _ast.Attribute)) or (isinstance(x, _ast.Call) and _norm(x.func) in ("calcsize", "struct.calcsize"))):
                try:
                    v = prog.fold(x, fn.module, fn.cls)
                except Exception:  # noqa: BLE001
                    v = _UNK
                if isinstance(v, (int, str, bytes)) and not isinstance(v, bool):
                    return v
            # a function of the stdlib `operator` module (imported by name or used as operator.<f>): the function itself - a pure leaf
            if isinstance(x, (_ast.Name, _ast.Attribute)):
                import operator as _op
                imp = getattr(fn.module, "_operator_imports", None)
                if imp is None:
                    imp = {}
                    for st in getattr(fn.module.tree, "body", []):
                        if isinstance(st, _ast.ImportFrom) and st.module == "operator":
                            for al in st.names:
                                imp[al.asname or al.name] = al.name
                        elif isinstance(st, _ast.Import):
                            for al in st.names:
                                if al.name == "operator":
                                    imp[(al.asname or al.name) + "."] = "*"
                    try:
                        fn.module._operator_imports = imp
                    except Exception:  # noqa: BLE001
                        pass
                if isinstance(x, _ast.Name) and x.id in imp and hasattr(_op, imp[x.id]):
                    return getattr(_op, imp[x.id])
                if isinstance(x, _ast.Attribute) and isinstance(x.value, _ast.Name) and (x.value.id + ".") in imp and hasattr(_op, x.attr):
                    return getattr(_op, x.attr)
            # an enum class / an enum member of the analysed program: its model
            if isinstance(x, _ast.Name) or (isinstance(x, _ast.Attribute) and isinstance(x.value, _ast.Name)):
                try:
                    k = prog.resolve(fn.module, x.id if isinstance(x, _ast.Name) else x.value.id)
                except Exception:  # noqa: BLE001
                    k = None
                if hasattr(k, "consts") and hasattr(k, "methods"):
                    em = self.enum_model(k)
                    if em is not None:
                        if isinstance(x, _ast.Name):
                            return em
                        if x.attr in em.__dict__ and not x.attr.startswith("_"):
                            return em.__dict__[x.attr]
                    elif isinstance(x, _ast.Name):
                        return self.class_standin(k)  # a class of the program used as a value (`cls == K`, `isinstance(x, K)`)
            return None
        return sym

    def num(self, fn, e, mapping):
        """Numeric value of `e` inside function `fn` for the given values of its inputs (locals inlined, named constants folded)."""
        from .core import astutil as _A
        return self.subst_fold(_A.inline_locals(fn.node, e, depth=8), mapping, fn.module, fn.cls)

    def rule(self, fn, *args, **kw):
        """Run one rule; an anchor problem in it is recorded (fail-closed at the end) but does not hide the other rules' verdicts."""
        try:
            return fn(self, *args, **kw)
        except AnalysisError as e:
            self.chk.analysis_errors.append(f"{fn.__name__}: {e}")
        except Exception as e:  # checker bug inside one rule
            import traceback
            tb = traceback.format_exc().strip().splitlines()
            self.chk.analysis_errors.append(f"{fn.__name__}: checker exception {tb[-1]} @ {tb[-3].strip() if len(tb) > 2 else ''}")
        return None

    def data_path(self, *p: str) -> str:
        return os.path.join(self.root, *p)

    # anchor accessors: record what was consulted (evidence) and fail closed when an anchor vanished
    def m(self, relpath: str):
        mi = self.prog.mod(relpath)
        self.chk.units[relpath] = mi.digest
        return mi

    def cls(self, relpath: str, name: str):
        self.m(relpath)
        return self.prog.cls(relpath, name)

    def func(self, relpath: str, name: str):
        self.m(relpath)
        f = self.prog.func(relpath, name)
        self.chk.analysed(f.qual)
        return f

    def own(self, relpath: str, cname: str, mname: str, kind: str = "plain"):
        self.m(relpath)
        f = self.prog.own_method(relpath, cname, mname, kind)
        self.chk.analysed(f.qual)
        return f


def anchor_py_files(prop: str, repo) -> List[str]:
    """Python files named in the property's anchors (directories and globs expanded), from the fixed properties file."""
    out: List[str] = []
    for ln in open(os.path.join(VERIF, "properties.jsonl"), encoding="utf-8"):
        d = json.loads(ln)
        if d.get("id") != prop:
            continue
        for f in d.get("anchors", {}).get("files", []):
            f = f.split(" ")[0].strip()
            if f.endswith(".py") and repo.exists(f):
                out.append(f)
            elif f.endswith("/") or (not f.endswith(".py") and "*" not in f and os.path.isdir(os.path.join(repo.root, f))):
                out += [x for x in repo.iter_py(f.rstrip("/"))]
            elif "*" in f and f.endswith(".py"):
                import fnmatch
                out += [x for x in repo.iter_py("spsdk") if fnmatch.fnmatch(x, f)]
    return sorted(set(out))


def generic_rules(ctx) -> None:
    """Rules that apply to every property's anchor modules: delegating overrides hand on every shared parameter."""
    from .engines import superflow
    files = anchor_py_files(ctx.chk.prop, ctx.repo)
    if files:
        n = superflow.check(ctx, f"{ctx.chk.prop}.override-forwarding", files)
        ctx.chk.extra["override_forwarding_sites"] = n
        from .engines import latebind
        lb = latebind.check(ctx, f"{ctx.chk.prop}.late-binding", files)
        ctx.chk.extra["overridden_class_constants"] = lb
        if lb:
            ctx.chk.ok(f"{ctx.chk.prop}.late-binding", "anchor modules", f"{lb} class constants overridden by subclasses; the base classes read none of them through a hard-coded class name")
        from .engines import generic2
        dp = generic2.dead_parameters(ctx, f"{ctx.chk.prop}.dead-parameter", files)
        ma = generic2.manual_align(ctx, f"{ctx.chk.prop}.manual-align", files)
        sf = generic2.signed_formats(ctx, f"{ctx.chk.prop}.signed-format", files)
        fb = generic2.instance_from_bytes(ctx, f"{ctx.chk.prop}.from-bytes-class", files)
        ctx.chk.extra["from_bytes_sites_scanned"] = fb
        wf = generic2.wire_field_replaced(ctx, f"{ctx.chk.prop}.wire-field-replaced", files)
        ctx.chk.extra["unpacking_functions_scanned"] = wf
        if wf:
            ctx.chk.ok(f"{ctx.chk.prop}.wire-field-replaced", "anchor modules", f"{wf} functions that unpack wire fields scanned; no field read from the input is replaced by an unrelated value (1 guarded re-assignment)")
        ig = generic2.index_guard_off_by_one(ctx, f"{ctx.chk.prop}.index-guard", files)
        ctx.chk.extra["length_guards_scanned"] = ig
        if ig:
            ctx.chk.ok(f"{ctx.chk.prop}.index-guard", "anchor modules", f"{ig} raising guards against a length scanned; none admits the index equal to the length before the element access")
        dk = generic2.db_key_lookups(ctx, f"{ctx.chk.prop}.db-key-exists", files)
        ctx.chk.extra["database_lookups_scanned"] = dk
        if dk:
            ctx.chk.ok(f"{ctx.chk.prop}.db-key-exists", "anchor modules", f"{dk} literal database lookups scanned; every (feature, key) exists in some device database or in the defaults")
        if fb:
            ctx.chk.ok(f"{ctx.chk.prop}.from-bytes-class", "anchor modules", f"{fb} from_bytes calls scanned; every receiver is a class (no value.from_bytes)")
        ctx.chk.extra["struct_formats_scanned"] = sf
        if sf:
            ctx.chk.ok(f"{ctx.chk.prop}.signed-format", "anchor modules", f"{sf} folded struct formats scanned; all items unsigned (1 frozen exception)")
        ctx.chk.extra["parameters_scanned"] = dp
        ctx.chk.extra["manual_align_sites"] = ma
        if dp:
            ctx.chk.ok(f"{ctx.chk.prop}.dead-parameter", "anchor modules", f"{dp} parameters of non-interface functions scanned; every one is read by its body (3 frozen exceptions)")
        from .engines import typecmp
        # embedded positive example (a rule whose expected count is zero must still be able to match)
        _pos = type("M", (), {"tree": ast.parse("class K:\n    def get_value(self) -> int:\n        return 1\n    def f(self, o):\n        if o.get_value() == 'UserDefined':\n            return 1\n        return o.get_value() == 3\n"), "relpath": "<positive example>"})()
        if len(list(typecmp.dead_comparisons(_pos, typecmp.return_table([_pos])))) != 1:
            raise AnalysisError("typed-comparison: embedded positive example no longer matches exactly once")
        tab = typecmp.return_table(ctx.prog.modules.values())
        tc = 0
        for rp in files:
            m = ctx.prog.modules.get(rp) or next((x for x in ctx.prog.modules.values() if x.relpath == rp), None)
            if m is None:
                continue
            for node in ast.walk(m.tree):
                if isinstance(node, ast.Compare) and any(isinstance(x, ast.Call) and typecmp.declared(tab, x) for x in [node.left] + list(node.comparators)):
                    tc += 1
            for node, why in typecmp.dead_comparisons(m, tab):
                ctx.chk.bad(f"{ctx.chk.prop}.typed-comparison", f"{rp}:{node.lineno} `{ast.unparse(node)[:90]}`", why, "both sides of an equality / membership test have the same declared type", f"{rp}:{node.lineno}")
        ctx.chk.extra["typed_comparisons_scanned"] = tc
        if tc:
            ctx.chk.ok(f"{ctx.chk.prop}.typed-comparison", "anchor modules", f"{tc} comparisons of a call with a uniformly declared simple return type scanned; none compares it with a literal of another type")
        from .engines import guardconj
        g = guardconj.check(ctx, f"{ctx.chk.prop}.guard-conjunction", files)
        ctx.chk.extra["raising_guards_scanned"] = g
        if g:
            ctx.chk.ok(f"{ctx.chk.prop}.guard-conjunction", "anchor modules", f"{g} raising guards scanned; none combines inequalities on different subjects with `and`")


def thorough_extras(ctx) -> None:
    """Thorough tier: (a) the generic idiom rules swept over the WHOLE package (reported, armed only on anchor modules);
    (b) checker sensitivity: every stored breaking change of this property must fire, every behaviour-preserving mutator must
    stay silent. (b) is about the checker, not about /repo: its result is recorded in the evidence and printed, a failure is an
    ANALYSIS-ERROR (the checker lost sensitivity/robustness), never a VIOLATION."""
    import contextlib
    import io
    from .core.report import Check
    from .engines import generic2, guardconj, latebind, superflow
    prop = ctx.chk.prop
    allmods = [m.relpath for m in ctx.prog.modules.values()]
    anchors = set(anchor_py_files(prop, ctx.repo))
    rest = [m for m in allmods if m not in anchors]
    shadow = Check(prop, ctx.tier, ctx.repo.root)
    real, ctx.chk = ctx.chk, shadow
    try:
        n = superflow.check(ctx, "sweep.override-forwarding", rest) + latebind.check(ctx, "sweep.late-binding", rest) + guardconj.check(ctx, "sweep.guard-conjunction", rest)
        n += generic2.manual_align(ctx, "sweep.manual-align", rest) + generic2.signed_formats(ctx, "sweep.signed-format", rest)
    finally:
        ctx.chk = real
    for f in shadow.findings:
        ctx.chk.report(f"package sweep (not armed outside the anchors): {f.rule} {f.construct}: {f.what[:160]}")
    ctx.chk.extra["package_sweep"] = {"sites": n, "reported": len(shadow.findings), "modules": len(rest)}
    from .regress import collect, _one
    from .mutate import MUTATORS, _one as _mut
    from concurrent.futures import ProcessPoolExecutor
    items = [(k, nme, p, f, ctx.repo.root) for k, nme, p, f in collect([prop]) if p == prop]
    work = [(m, prop, ctx.repo.root) for m in MUTATORS]
    buf = io.StringIO()
    with contextlib.redirect_stdout(buf), ProcessPoolExecutor(max_workers=16) as ex:
        res = list(ex.map(_one, items))
        mres = list(ex.map(_mut, work))
    fired = [r for r in res if r[0] != "benign" and r[3] == 1]
    missed = [r[1] for r in res if r[0] != "benign" and r[3] != 1]
    ref_known = sorted(l for l in ctx.chk.lines if l.startswith("KNOWN-FINDING")) if hasattr(ctx.chk, "lines") else None
    alarms = [m for m, _p, rc, _k, _b in mres if rc != 0]
    ctx.chk.extra["checker_sensitivity"] = {"breaking_changes": len(fired) + len(missed), "fired": len(fired), "missed": missed,
                                            "behaviour_preserving_mutants": len(mres), "silent": len(mres) - len(alarms), "alarms": alarms}
    print(f"[{prop}] thorough: package sweep {n} sites ({len(shadow.findings)} reported); sensitivity {len(fired)}/{len(fired) + len(missed)} breaking changes fire, "
          f"{len(mres) - len(alarms)}/{len(mres)} behaviour-preserving mutants silent")
    if missed or alarms:
        ctx.chk.analysis_errors.append(f"checker sensitivity lost: missed {missed}, mutant alarms {alarms}")


def load_known() -> List[dict]:
    p = os.path.join(VERIF, "known_findings.json")
    if not os.path.exists(p):
        return []
    return json.load(open(p)).get("findings", [])


def run_prop(prop: str, tier: str, root: str, overlays: Optional[Dict[str, str]] = None, write: bool = True, quiet: bool = False) -> int:
    try:
        mod = importlib.import_module(f"sa.props.{prop.lower()}")
    except ModuleNotFoundError:
        print(f"ANALYSIS-ERROR property={prop} check not built")
        return 2
    try:
        ctx = Ctx(prop, tier, root, overlays)
        mod.run(ctx)
        ctx.rule(generic_rules)
        if tier == "thorough" and overlays is None:
            ctx.rule(thorough_extras)
        ctx.chk.extra["package_units_parsed"] = len(ctx.repo.consulted)
        rc = ctx.chk.finish(load_known(), write=write)
    except AnalysisError as e:
        print(f"ANALYSIS-ERROR property={prop} {e}")
        return 2
    except Exception:  # checker bug: fail closed, never a VIOLATION
        tb = traceback.format_exc().strip().splitlines()
        print(f"ANALYSIS-ERROR property={prop} checker exception: {tb[-1]}")
        if not quiet:
            print("\n".join(tb[-8:]), file=sys.stderr)
        return 2
    if not quiet:
        c = ctx.chk
        print(f"[{prop}] tier={tier} root={root} units={len(c.units)} functions={len(c.functions_analysed)} "
              f"obligations={len(c.obligations)} discharged={sum(1 for o in c.obligations if o['verdict']=='discharged')} "
              f"reported={len(c.reports)} wall={c.evidence['wall_s']}s")
        for r, n in sorted(c.rule_counts.items()):
            print(f"  rule {r}: {n} instance(s)" + (f" (floor {c.floors[r]})" if r in c.floors else ""))
    for ln in ctx.chk.lines:
        print(ln)
    for e in ctx.chk.analysis_errors:
        print(f"ANALYSIS-ERROR property={prop} {e}")
    if ctx.chk.analysis_errors and rc == 0:
        rc = 2
    ctx.last = ctx.chk  # type: ignore[attr-defined]
    run_prop.last = ctx.chk  # type: ignore[attr-defined]
    return rc


def main(argv: List[str]) -> int:
    ap = argparse.ArgumentParser(prog="check")
    ap.add_argument("props", nargs="*")
    ap.add_argument("--tier", default=os.environ.get("VERIF_TIER", "quick"), choices=["quick", "thorough"])
    ap.add_argument("--root", default=os.environ.get("VERIF_ROOT", "/repo"))
    ap.add_argument("--replay")
    ap.add_argument("--all", action="store_true")
    ap.add_argument("--regress", action="store_true")
    ap.add_argument("--mutants", action="store_true", help="behaviour-preserving mutators: every check must stay silent")
    ap.add_argument("--only", default="", help="comma separated mutator names for --mutants")
    ap.add_argument("--no-write", action="store_true")
    ap.add_argument("-j", type=int, default=16)
    a = ap.parse_args(argv)
    if a.regress:
        from .regress import run_regress
        return run_regress(a.props, a.root, a.j)
    if a.mutants:
        from .mutate import run_mutants
        return run_mutants(a.props, a.root, a.j, [x for x in a.only.split(",") if x])
    props = ALL if a.all else a.props
    if not props:
        ap.print_help()
        return 2
    if a.replay:
        info = json.load(open(a.replay))
        rc = run_prop(info["property"], a.tier, a.root, write=False, quiet=True)
        last = getattr(run_prop, "last", None)
        hit = [f for f in (last.findings if last else []) if f.key == info["key"]]
        print(("REPRODUCED " if hit else "NOT-REPRODUCED ") + info["key"])
        return 1 if hit else 0
    worst = 0
    for p in props:
        rc = run_prop(p, a.tier, a.root, write=not a.no_write)
        worst = max(worst, rc)
    return worst
