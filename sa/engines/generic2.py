"""Two more repository-wide idiom rules (deviant-behaviour style, exceptions frozen with a reason):

dead-parameter : a declared parameter that the body never reads (and that is not there for interface conformance)
                 means a caller-supplied value is silently ignored (e.g. `algorithm`, `password`, `revision`).
manual-align   : the padding idiom `N - x % N` yields N (a whole extra block) when x is already aligned; the repository
                 always guards it with `if x % N` (or wraps it in `% N` / `min`). An unguarded use is an off-by-one-block.
"""
from __future__ import annotations

import ast
from typing import Iterable

from ..core import astutil as A
from ..core.loader import AnalysisError
from ..core import callgraph as CG
from ..core.report import norm

DEAD_PARAM_EXCEPTIONS = {
    ("spsdk/image/ahab/ahab_srk.py::SRKTable.compute_srk_hash", "srk_id"): "same signature as SRKTableArray.compute_srk_hash (a v1 table has one hash)",
    ("spsdk/image/hab/commands/commands.py::SecCsfHeader.load_from_config", "search_paths"): "same signature as the sibling command loaders; the header reads no files",
    ("spsdk/sbfile/sb2/sb_21_helper.py::SB21Helper._reset", "cmd_args"): "handler table signature; `reset` takes no arguments",
}
MANUAL_ALIGN_EXCEPTIONS = {
    "spsdk/image/hab/segments.py::CsfHabSegment.align_offset": "mirrors the CST tool: 1..16 bytes are always added before rounding up to 4 KiB",
    "spsdk/image/hab/commands/commands.py::SecInstallSecretKey.calculate_location": "same formula as CsfHabSegment.align_offset (C07.pointers compares the siblings)",
}


def dead_parameters(ctx, rule: str, modules: Iterable[str]) -> int:
    prog, chk = ctx.prog, ctx.chk
    mods = set(modules)
    n = 0
    for fn in CG.all_functions(prog):
        if fn.module.relpath not in mods:
            continue
        body = A.body_of(fn.node)
        if all(isinstance(s, (ast.Pass, ast.Raise)) or (isinstance(s, ast.Expr) and isinstance(s.value, ast.Constant)) or (isinstance(s, ast.Return) and (s.value is None or isinstance(s.value, ast.Constant))) for s in body):
            continue  # stub / abstract
        if any(d.split("(")[0].split(".")[-1] in ("abstractmethod", "overload", "_") for d in fn.decorators):
            continue  # abstract methods, typing overloads, SLY grammar actions (signature fixed by the parser generator)
        if fn.name in ("__exit__", "__aexit__", "__init_subclass__", "__class_getitem__"):
            continue
        if fn.cls is not None:
            if any(k.method(fn.name) is not None for k in prog.mro(fn.cls)[1:]):
                continue  # override: the signature is the parent's interface
            if any(s.method(fn.name) is not None for s in prog.subclasses(fn.cls)):
                continue  # overridden: the signature is the interface of the variants
        a = fn.node.args
        params = [x.arg for x in a.posonlyargs + a.args + a.kwonlyargs if x.arg not in ("self", "cls")]
        used = {x.id for s in body for x in ast.walk(s) if isinstance(x, ast.Name)}
        for p in params:
            n += 1
            if p in used or p.startswith("_"):
                continue
            if (fn.qual, p) in DEAD_PARAM_EXCEPTIONS:
                continue
            chk.bad(rule, f"{fn.qual}({p})", f"parameter `{p}` is never read: a value supplied by the caller is silently ignored", f"use `{p}` or remove it from the signature", A.loc(fn.module.relpath, fn.node))
    return n


def manual_align(ctx, rule: str, modules: Iterable[str]) -> int:
    prog, chk = ctx.prog, ctx.chk
    mods = set(modules)
    n = 0
    for fn in CG.all_functions(prog):
        if fn.module.relpath not in mods:
            continue
        for e in ast.walk(fn.node):
            if not (isinstance(e, ast.BinOp) and isinstance(e.op, ast.Sub) and isinstance(e.right, ast.BinOp) and isinstance(e.right.op, ast.Mod) and norm(e.left) == norm(e.right.right)):
                continue
            n += 1
            x, N = norm(e.right.left), norm(e.left)
            par = getattr(e, "_parent", None)
            wrapped = isinstance(par, ast.BinOp) and isinstance(par.op, ast.Mod) and norm(par.right) == N
            in_min = any(isinstance(a, ast.Call) and isinstance(a.func, ast.Name) and a.func.id == "min" for a in A.ancestors(e))
            guarded = any(isinstance(a, (ast.If, ast.IfExp, ast.While)) and f"{x} % {N}" in norm(a.test) for a in A.ancestors(e))
            if wrapped or in_min or guarded or fn.qual in MANUAL_ALIGN_EXCEPTIONS:
                continue
            chk.bad(rule, fn.qual, f"`{norm(e)}` is used without the `if {x} % {N}` guard (or an outer `% {N}`): an already aligned length gets a whole extra block of {N}",
                    f"align_block(...) or ({N} - {x} % {N}) % {N}", A.loc(fn.module.relpath, e))
    return n


SIGNED_FORMAT_EXCEPTIONS = {
    "spsdk/sdp/sdps.py::CmdPacket.to_bytes": "the SDPS command block defines this one byte as signed (value 0 or small positive)",
}


def signed_formats(ctx, rule: str, modules: Iterable[str]) -> int:
    """Every wire field of the anchored formats is unsigned: a signed struct code (b h i l q) turns values with the top bit set
    (addresses >= 0x80000000, status words 0xA5..) negative when read and makes pack() reject them when written."""
    import re
    import struct as _struct
    prog, chk = ctx.prog, ctx.chk
    mods = set(modules)
    n = 0
    for fn in CG.all_functions(prog):
        if fn.module.relpath not in mods:
            continue
        for c in ast.walk(fn.node):
            if not (isinstance(c, ast.Call) and A.call_name(c) in ("pack", "unpack", "unpack_from", "pack_into", "calcsize", "iter_unpack") and c.args):
                continue
            f = prog.fold(c.args[0], fn.module, fn.cls)
            if not isinstance(f, str):
                continue
            try:
                _struct.calcsize(f)
            except _struct.error:
                continue
            n += 1
            body = f.lstrip("<>=!@")
            if re.search(r"[bhilq]", body) and fn.qual not in SIGNED_FORMAT_EXCEPTIONS:
                chk.bad(rule, fn.qual, f"`{norm(c)[:90]}` uses the format {f!r} with a signed item", "unsigned codes (B H I L Q) for wire fields", A.loc(fn.module.relpath, c))
    return n


def instance_from_bytes(ctx, rule: str, modules: Iterable[str]) -> int:
    """`<value>.from_bytes(...)`: the alternative constructor is looked up on the value's dynamic class, so a bool (an int in every
    comparison) goes through bool.from_bytes and collapses the result to True/False.  The receiver must be the class (`int`)."""
    prog, chk = ctx.prog, ctx.chk
    mods = set(modules)
    n = 0

    def offending(fn_node):
        params = {a.arg for a in fn_node.args.args + fn_node.args.kwonlyargs}
        for c in ast.walk(fn_node):
            if not (isinstance(c, ast.Call) and isinstance(c.func, ast.Attribute) and c.func.attr == "from_bytes" and len(c.args) + len(c.keywords) in (1, 2, 3)):
                continue
            r = c.func.value
            hit = False
            if isinstance(r, ast.Name) and r.id != "int" and (r.id in params or r.id.islower()) and not r.id[:1].isupper():
                # a lower-case local / parameter as receiver: an instance, not a class (CamelCase names are classes with their own from_bytes)
                hit = any(isinstance(x, ast.Name) and x.id == r.id and isinstance(x.ctx, ast.Store) for x in ast.walk(fn_node)) or r.id in params
            yield c, r, hit
    # embedded positive example
    pos = ast.parse("def f(value, raw):\n    a = int.from_bytes(raw, 'big')\n    return value.from_bytes(raw, 'little')\n").body[0]
    if [h for _c, _r, h in offending(pos)] != [False, True]:
        raise AnalysisError("from-bytes-class: embedded positive example no longer matches")
    for fn in CG.all_functions(prog):
        if fn.module.relpath not in mods:
            continue
        for c, r, hit in offending(fn.node):
            n += 1
            if hit:
                chk.bad(rule, fn.qual, f"`{norm(c)[:80]}` calls from_bytes on the value `{r.id}` itself", "int.from_bytes(...)", A.loc(fn.module.relpath, c))
    return n


_DB_GETTERS = ("get_bool", "get_int", "get_str", "get_list", "get_dict", "get_value", "get_file_path", "get_float")


def db_key_lookups(ctx, rule: str, files) -> int:
    """db-key-exists: a database lookup `db.get_<type>(DatabaseManager.<FEATURE>, "<key>", ...)` with a literal feature and key names a
    key that exists under that feature for at least one device (or in the defaults).  A lookup of a key no database carries is dead:
    it answers with its default for every family - the value was moved to, or is looked for in, the wrong feature.  (188 literal
    lookups in the package, none dead, when the rule was written.)  Embedded positive example checked on every run."""
    from ..core.devdb import DevDB
    from ..core.report import norm
    if getattr(ctx.repo, "_dbk_tables", None) is None:
        db = DevDB(ctx.repo)
        keys: dict = {}
        for dev in db.device_names():
            for _rev, feats in db.revisions(dev).items():
                for f, d in feats.items():
                    if isinstance(d, dict):
                        keys.setdefault(f, set()).update(d.keys())
        for f, d in (db.defaults.get("features") or {}).items():
            if isinstance(d, dict):
                keys.setdefault(f, set()).update(d.keys())
        dbm = ctx.prog.modules.get("spsdk/utils/database.py") or next((x for x in ctx.prog.modules.values() if x.relpath == "spsdk/utils/database.py"), None)
        if dbm is None:
            dbm = ctx.mod("spsdk/utils/database.py") if hasattr(ctx, "mod") else None
        tree = dbm.tree if dbm is not None else ast.parse(ctx.repo.read("spsdk/utils/database.py"))
        fe: dict = {}
        feat: dict = {}
        for n in ast.walk(tree):
            if isinstance(n, ast.ClassDef) and n.name == "FeaturesEnum":
                for s in n.body:
                    if isinstance(s, ast.Assign) and isinstance(s.value, ast.Tuple) and len(s.value.elts) >= 2 and isinstance(s.value.elts[1], ast.Constant):
                        fe[s.targets[0].id] = s.value.elts[1].value
        for n in ast.walk(tree):
            if isinstance(n, ast.ClassDef) and n.name == "DatabaseManager":
                for s in n.body:
                    if isinstance(s, ast.Assign) and isinstance(s.targets[0], ast.Name):
                        t = norm(s.value)
                        if t.startswith("FeaturesEnum.") and t.endswith(".label") and t.split(".")[1] in fe:
                            feat[s.targets[0].id] = fe[t.split(".")[1]]
                        elif isinstance(s.value, ast.Constant) and isinstance(s.value.value, str):
                            feat[s.targets[0].id] = s.value.value
        if len(feat) < 20 or len(keys) < 20:
            raise AnalysisError(f"db-key-exists: feature table ({len(feat)}) / database key table ({len(keys)}) not recovered")
        ctx.repo._dbk_tables = (keys, feat)
    keys, feat = ctx.repo._dbk_tables

    def lookups(tree):
        for c in ast.walk(tree):
            if isinstance(c, ast.Call) and isinstance(c.func, ast.Attribute) and c.func.attr in _DB_GETTERS and len(c.args) >= 2:
                a0, a1 = c.args[0], c.args[1]
                f = feat.get(a0.attr) if isinstance(a0, ast.Attribute) and norm(a0.value) == "DatabaseManager" else None
                k = a1.value if isinstance(a1, ast.Constant) and isinstance(a1.value, str) else (a1.elts[0].value if isinstance(a1, ast.List) and a1.elts and isinstance(a1.elts[0], ast.Constant) and isinstance(a1.elts[0].value, str) else None)
                if f is not None and k is not None:
                    yield c, f, k
    pos = ast.parse("x = get_db(f).get_bool(DatabaseManager.DAT, 'no_such_key_anywhere', False)")
    if [1 for _c, f, k in lookups(pos) if k not in keys.get(f, set())] != [1]:
        raise AnalysisError("db-key-exists: embedded positive example no longer matches")
    n = 0
    for rp in files:
        m = ctx.prog.modules.get(rp) or next((x for x in ctx.prog.modules.values() if x.relpath == rp), None)
        if m is None:
            continue
        for c, f, k in lookups(m.tree):
            n += 1
            if k not in keys.get(f, set()):
                ctx.chk.bad(rule, f"{rp} `{norm(c)[:110]}`", f"no device database (nor the defaults) has a key '{k}' under the feature '{f}': the lookup answers with its default for every family",
                            "a literal database lookup names a key some database carries", f"{rp}:{c.lineno}")
    return n


def _unpack_call(v) -> bool:
    return isinstance(v, ast.Call) and ast.unparse(v.func).split(".")[-1] in ("unpack", "unpack_from")


def _reaches(f, defs, kill) -> bool:
    """some structured path of f executes one of the unpacking assignments `defs` and later the re-assignment `kill` (the two may sit
    in different arms of a decision: then the wire value never meets the re-assignment)"""
    try:
        paths = A.gpaths(f)
    except OverflowError:
        return True
    for q in paths:
        seen = False
        for st in q.stmts:
            if any(st is d for d in defs):
                seen = True
            elif st is kill and seen:
                return True
    return False


def wire_field_replaced(ctx, rule: str, files) -> int:
    """wire-field-replaced: a local that `struct.unpack` / `unpack_from` filled from the input bytes is later re-assigned from something
    that does not depend on its wire value, outside any branch whose test looks at the wire value.  The parser then accepts every
    value of that field and re-exports a normalised one: a parse / verify that recomputes from the object no longer sees a change of
    those bytes (tamper acceptance), and parse(export) is no longer the identity on them.  95 unpacking functions in the package, one
    guarded re-assignment (IskCertificate.parse: tested on the old value), none unguarded, when the rule was written."""
    def hits(tree):
        for f in ast.walk(tree):
            if not isinstance(f, ast.FunctionDef):
                continue
            wire = {}
            wire_nodes: dict = {}
            for n in ast.walk(f):
                if isinstance(n, ast.Assign) and _unpack_call(n.value):
                    for t_ in n.targets:
                        for e in (t_.elts if isinstance(t_, (ast.Tuple, ast.List)) else [t_]):
                            if isinstance(e, ast.Name) and e.id != "_":
                                wire.setdefault(e.id, n.lineno)
                                wire_nodes.setdefault(e.id, []).append(n)
            if not wire:
                continue
            yield f, None, None
            parents = {}
            for n in ast.walk(f):
                for ch in ast.iter_child_nodes(n):
                    parents[ch] = n
            for n in ast.walk(f):
                if not isinstance(n, ast.Assign) or _unpack_call(n.value):
                    continue
                for t_ in n.targets:
                    for e in (t_.elts if isinstance(t_, (ast.Tuple, ast.List)) else [t_]):
                        if not (isinstance(e, ast.Name) and e.id in wire and n.lineno > wire[e.id]):
                            continue
                        if any(isinstance(x, ast.Name) and x.id == e.id for x in ast.walk(n.value)):
                            continue  # derived from the wire value
                        guarded = False
                        cur = n
                        while cur in parents and cur is not f:
                            par = parents[cur]
                            if isinstance(par, (ast.If, ast.While)) and any(isinstance(x, ast.Name) and x.id == e.id for x in ast.walk(par.test)):
                                guarded = True
                                break
                            cur = par
                        if not guarded and _reaches(f, wire_nodes.get(e.id, []), n):
                            yield f, e.id, n
    pos = ast.parse("def parse(cls, data):\n    (a, b) = unpack('<2H', data)\n    if a in T:\n        b = T[a]\n    return cls(a, b)\n")
    neg = ast.parse("def parse(cls, data):\n    if len(data) > 4:\n        (a, b) = unpack('<2H', data)\n        if b & 1:\n            b = 72\n        a = a & 3\n    else:\n        a = 0\n        b = 5\n    return cls(a, b)\n")
    if len([1 for _f, nm, _n in hits(pos) if nm]) != 1 or [1 for _f, nm, _n in hits(neg) if nm]:
        raise AnalysisError("wire-field-replaced: embedded examples no longer behave (positive must match once, guarded twin must not)")
    cnt = 0
    for rp in files:
        m = ctx.prog.modules.get(rp) or next((x for x in ctx.prog.modules.values() if x.relpath == rp), None)
        if m is None:
            continue
        for f, nm, n in hits(m.tree):
            if nm is None:
                cnt += 1
                continue
            ctx.chk.bad(rule, f"{rp}::{f.name} `{norm(n)[:90]}`", f"`{nm}` was read from the input bytes and is replaced here by a value that does not depend on what was read (no test on the read value guards it)",
                        "a field read from the wire is used, checked or derived from - not silently replaced", f"{rp}:{n.lineno}")
    return cnt


def index_guard_off_by_one(ctx, rule: str, files) -> int:
    """index-guard: a raising guard `i > len(S)` that is followed by the element access `S[i]` lets `i == len(S)` through: the access then
    raises a bare IndexError instead of the error the guard was written to raise.  (One hit in the package when the rule was written:
    SRKTableArray.compute_srk_hash, repaired.)  Embedded positive example checked on every run."""
    def hits(tree):
        for f in ast.walk(tree):
            if not isinstance(f, ast.FunctionDef):
                continue
            for st in ast.walk(f):
                if isinstance(st, ast.If) and isinstance(st.test, ast.Compare) and len(st.test.ops) == 1 and isinstance(st.test.ops[0], ast.Gt) and A.always_raises(st.body):
                    r = st.test.comparators[0]
                    if isinstance(r, ast.Call) and norm(r.func) == "len" and len(r.args) == 1:
                        seq, idx = norm(r.args[0]), norm(st.test.left)
                        for s2 in ast.walk(f):
                            if isinstance(s2, ast.Subscript) and not isinstance(s2.slice, ast.Slice) and norm(s2.value) == seq and norm(s2.slice) == idx and getattr(s2, "lineno", 0) > st.lineno:
                                yield f, st, s2
                                break
    pos = ast.parse("def f(self, i):\n    if i > len(self.t):\n        raise ValueError('range')\n    return self.t[i].x\n")
    neg = ast.parse("def f(self, i):\n    if i >= len(self.t):\n        raise ValueError('range')\n    return self.t[i].x\n")
    if len(list(hits(pos))) != 1 or list(hits(neg)):
        raise AnalysisError("index-guard: embedded examples no longer behave")
    n = 0
    for rp in files:
        m = ctx.prog.modules.get(rp) or next((x for x in ctx.prog.modules.values() if x.relpath == rp), None)
        if m is None:
            continue
        for f in ast.walk(m.tree):
            if isinstance(f, ast.FunctionDef):
                n += sum(1 for st in ast.walk(f) if isinstance(st, ast.If) and isinstance(st.test, ast.Compare) and any(isinstance(c_, ast.Call) and norm(c_.func) == "len" for c_ in st.test.comparators) and A.always_raises(st.body))
        for f, st, s2 in hits(m.tree):
            ctx.chk.bad(rule, f"{rp}::{f.name} `{norm(st.test)}`", f"the guard lets `{norm(st.test.left)} == len(...)` through and `{norm(s2)}` then raises IndexError", "`>=` (an index equal to the length is out of range)", f"{rp}:{st.lineno}")
    return n
