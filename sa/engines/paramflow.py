"""Parameter propagation: a function that receives `revision` must hand it to every (resolved) callee that accepts one.

A callee invoked without the argument silently works on the "latest" revision: the result is right for the latest revision
(what the test-suite exercises) and wrong for every other one. Exceptions are frozen by (caller, callee) with a reason."""
from __future__ import annotations

import ast
from typing import Dict, Iterable, List, Optional, Tuple

from ..core import astutil as A
from ..core import callgraph as CG
from ..core.report import norm

EXCEPTIONS: Dict[Tuple[str, str], str] = {
    ("spsdk/utils/schema_validator.py::update_validation_schema_family", "get_db"): "only the revision-independent device record (list of revisions) is read",
    ("spsdk/image/bootable_image/bimg.py::BootableImage.get_memory_type_config", "get_supported_memory_types"): "membership pre-check only; memory types do not differ between revisions in the database (checked by C14.db-layout)",
}


def check(ctx, rule: str, modules: Iterable[str], param: str = "revision") -> int:
    prog, chk = ctx.prog, ctx.chk
    mods = set(modules)
    n = 0
    for fn in CG.all_functions(prog):
        if fn.module.relpath not in mods:
            continue
        has = param in fn.params()
        if not has:
            continue
        for c in A.calls_in(fn.node):
            tg = CG.resolve_call(prog, fn.module, fn.cls, c)
            if not tg:
                continue
            g = tg[0]
            if param not in g.params():
                continue
            n += 1
            passed = any(k.arg == param for k in c.keywords) or any(k.arg is None for k in c.keywords)
            if not passed:
                ps = g.params()
                if g.name in ("__init__", "__new__") or (g.cls is not None and not g.is_staticmethod):
                    ps = ps[1:]
                idx = ps.index(param) if param in ps else 99
                passed = len(c.args) > idx or any(isinstance(a, ast.Starred) for a in c.args)
            construct = f"{fn.qual} -> {g.name}"
            if passed:
                chk.ok(rule, construct, f"`{param}` is handed on")
            elif (fn.qual, g.name) in EXCEPTIONS:
                chk.report(f"{rule} exception {construct}: {EXCEPTIONS[(fn.qual, g.name)]}")
            else:
                chk.bad(rule, construct, f"`{norm(c)[:90]}` omits `{param}`: the callee falls back to its default (latest) although the caller was asked for a specific {param}",
                        f"{param}={param}", A.loc(fn.module.relpath, c))
    return n
