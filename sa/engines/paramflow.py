"""Parameter propagation: a function that receives `revision` must hand it to every (resolved) callee that accepts one.

A callee invoked without the argument silently works on the "latest" revision: the result is right for the latest revision
(what the test-suite exercises) and wrong for every other one. Exceptions are frozen by (caller, callee) with a reason."""
from __future__ import annotations

import ast
from typing import Dict, Iterable, List, Optional, Tuple

from ..core import astutil as A
from ..core import callgraph as CG
from ..core.report import norm

EXCEPTIONS: Dict[Tuple[str, str], str] = {
    ("spsdk/utils/schema_validator.py::update_validation_schema_family", "get_db"): "only the revision-independent device record (list of revisions) is read",
    ("spsdk/image/bootable_image/bimg.py::BootableImage.get_memory_type_config", "get_supported_memory_types"): "membership pre-check only; memory types do not differ between revisions in the database (checked by C14.db-layout)",
}


def _class_has_attr(prog, cls, param: str) -> bool:
    """the class (or a base) declares `param: T` in its body or stores `self.param` in one of its methods"""
    for k in prog.mro(cls):
        for st in k.node.body:
            if isinstance(st, ast.AnnAssign) and isinstance(st.target, ast.Name) and st.target.id == param:
                return True
        for fl in k.methods.values():
            for f in fl:
                for n_ in ast.walk(f.node):
                    if isinstance(n_, (ast.Assign, ast.AnnAssign)):
                        for t in (n_.targets if isinstance(n_, ast.Assign) else [n_.target]):
                            if isinstance(t, ast.Attribute) and t.attr == param and isinstance(t.value, ast.Name) and t.value.id == "self":
                                return True
    return False


def check(ctx, rule: str, modules: Iterable[str], param: str = "revision", self_attr: bool = False) -> int:
    """self_attr: a method of a class that carries `self.<param>` counts as a caller that was asked for a specific <param> too."""
    prog, chk = ctx.prog, ctx.chk
    mods = set(modules)
    n = 0
    attr_cache: Dict[str, bool] = {}
    for fn in CG.all_functions(prog):
        if fn.module.relpath not in mods:
            continue
        has = param in fn.params()
        if not has and self_attr and fn.cls is not None and not fn.is_staticmethod and fn.params()[:1] == ["self"]:
            if fn.cls.qual not in attr_cache:
                attr_cache[fn.cls.qual] = _class_has_attr(prog, fn.cls, param)
            has = attr_cache[fn.cls.qual]
        if not has:
            continue
        for c in A.calls_in(fn.node):
            tg = CG.resolve_call(prog, fn.module, fn.cls, c)
            if not tg:
                continue
            g = tg[0]
            if param not in g.params():
                continue
            n += 1
            passed = any(k.arg == param for k in c.keywords) or any(k.arg is None for k in c.keywords)
            if not passed:
                ps = g.params()
                if g.name in ("__init__", "__new__") or (g.cls is not None and not g.is_staticmethod):
                    ps = ps[1:]
                idx = ps.index(param) if param in ps else 99
                passed = len(c.args) > idx or any(isinstance(a, ast.Starred) for a in c.args)
            construct = f"{fn.qual} -> {g.name}"
            # handed on as a literal (e.g. after a helper with a default was inlined: get_db(family, "latest")): not the caller's revision
            lit = None
            for k in c.keywords:
                if k.arg == param and isinstance(k.value, ast.Constant):
                    lit = k.value
            if lit is None and passed and not any(k.arg == param for k in c.keywords):
                ps2 = g.params()
                if g.name in ("__init__", "__new__") or (g.cls is not None and not g.is_staticmethod):
                    ps2 = ps2[1:]
                i2 = ps2.index(param) if param in ps2 else 99
                if len(c.args) > i2 and isinstance(c.args[i2], ast.Constant):
                    lit = c.args[i2]
            if lit is not None and (fn.qual, g.name) not in EXCEPTIONS:
                chk.bad(rule, construct, f"`{norm(c)[:90]}` passes the constant {lit.value!r} as `{param}` although the caller was asked for a specific {param}", f"{param}={param}", A.loc(fn.module.relpath, c))
                continue
            if passed:
                chk.ok(rule, construct, f"`{param}` is handed on")
            elif (fn.qual, g.name) in EXCEPTIONS:
                chk.report(f"{rule} exception {construct}: {EXCEPTIONS[(fn.qual, g.name)]}")
            else:
                chk.bad(rule, construct, f"`{norm(c)[:90]}` omits `{param}`: the callee falls back to its default (latest) although the caller was asked for a specific {param}",
                        f"{param}={param}", A.loc(fn.module.relpath, c))
    return n
