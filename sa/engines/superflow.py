"""Override forwarding: a method that delegates to `super().<same method>(...)` hands on every parameter that the
overridden method also declares. A dropped keyword (e.g. `password`) silently selects the parent's default."""
from __future__ import annotations

import ast
from typing import Iterable

from ..core import astutil as A
from ..core import callgraph as CG
from ..core.report import norm


EXCEPTIONS = {
    ("spsdk/utils/database.py::SPSDKErrorMissingDevice.__init__", "desc"): "the description is stored on the instance right after the call",
}


def check(ctx, rule: str, modules: Iterable[str]) -> int:
    prog, chk = ctx.prog, ctx.chk
    mods = set(modules)
    n = 0
    for fn in CG.all_functions(prog):
        if fn.module.relpath not in mods or fn.cls is None:
            continue
        for c in [x for x in ast.walk(fn.node) if isinstance(x, ast.Call)]:
            f = c.func
            if not (isinstance(f, ast.Attribute) and isinstance(f.value, ast.Call) and isinstance(f.value.func, ast.Name) and f.value.func.id == "super" and f.attr == fn.name):
                continue
            parent = None
            for k in prog.mro(fn.cls)[1:]:
                parent = k.method(fn.name, "setter" if fn.is_setter else "plain") if hasattr(k, "method") else None
                if parent is not None:
                    break
            if parent is None:
                continue
            mine = [p for p in fn.params() if p not in ("self", "cls")]
            theirs = [p for p in parent.params() if p not in ("self", "cls")]
            shared = [p for p in mine if p in theirs]
            if not shared:
                continue
            n += 1
            passed_kw = {k.arg for k in c.keywords if k.arg}
            star = any(k.arg is None for k in c.keywords) or any(isinstance(a, ast.Starred) for a in c.args)
            pos = {theirs[i] for i in range(min(len(c.args), len(theirs)))}
            # a parameter counts as forwarded when it is passed by keyword/position, or its value is used in some argument
            used_names = {x.id for a in list(c.args) + [k.value for k in c.keywords] for x in ast.walk(a) if isinstance(x, ast.Name)}
            dropped = [p for p in shared if p not in passed_kw and p not in pos and p not in used_names and not star and (fn.qual, p) not in EXCEPTIONS]
            construct = f"{fn.qual} -> super().{fn.name}"
            if dropped:
                chk.bad(rule, construct, f"`{norm(c)[:100]}` does not hand on {dropped}: the overridden method falls back to its default although the caller supplied a value",
                        ", ".join(f"{p}={p}" for p in dropped), A.loc(fn.module.relpath, c))
            else:
                chk.ok(rule, construct, f"forwards {shared}")
    return n
