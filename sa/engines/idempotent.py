"""E7b Idempotent export - no accumulating state on the path from an entry method.

Events of a method in source order: plain stores `self.X = e` (e not reading self.X), accumulating stores
(`self.X += e`, `self.X = f(self.X)` after inlining locals, mutating container calls on self.X) and calls on self /
on typed attributes of self. Walking the events from the entry (calls entered recursively, attributes qualified
by the receiver path) an accumulating store on X is a violation unless a plain store to X happened earlier on the walk:
then every run starts from the same value and a second call yields the same result."""
from __future__ import annotations

import ast
from typing import Dict, List, Optional, Set, Tuple

from ..core import astutil as A
from ..core.report import norm
from ..core.symtab import ClassInfo, FuncInfo, Program

MUT = {"append", "extend", "insert", "update", "add", "setdefault", "pop", "remove", "clear", "sort", "reverse"}


def attr_types(prog: Program, cls: ClassInfo) -> Dict[str, ClassInfo]:
    """self.X -> class, from `self.X = K(...)`, `self.X: K = ...` and annotated constructor parameters."""
    out: Dict[str, ClassInfo] = {}
    for k in reversed(prog.mro(cls)):
        init = k.method("__init__")
        if init is None:
            continue
        ann = {a.arg: a.annotation for a in init.node.args.args + init.node.args.kwonlyargs if a.annotation is not None}
        for st in A.walk_no_nested(init.node):
            tgt = val = annot = None
            if isinstance(st, ast.Assign) and len(st.targets) == 1:
                tgt, val = st.targets[0], st.value
            elif isinstance(st, ast.AnnAssign):
                tgt, val, annot = st.target, st.value, st.annotation
            d = A.dotted(tgt) if tgt is not None else None
            if not d or not d.startswith("self.") or d.count(".") != 1:
                continue
            kcls = None
            if annot is not None:
                kcls = prog.resolve_expr_class(k.module, annot.slice if isinstance(annot, ast.Subscript) and norm(annot.value) == "Optional" else annot)
            if kcls is None and isinstance(val, ast.Call):
                kcls = prog.resolve_expr_class(k.module, val.func) if isinstance(val.func, (ast.Name, ast.Attribute)) else None
            if kcls is None and isinstance(val, ast.Name) and val.id in ann:
                a = ann[val.id]
                kcls = prog.resolve_expr_class(k.module, a.slice if isinstance(a, ast.Subscript) and norm(a.value) == "Optional" else a)
            if kcls is not None:
                out[d[5:]] = kcls
    return out


def events(fn: FuncInfo) -> List[Tuple[str, str, ast.AST]]:
    """('plain'|'acc'|'call', name, node) in source order. name: attribute path for stores, 'recv.method' for calls ('' recv = self)."""
    evs: List[Tuple[int, int, str, str, ast.AST]] = []
    for n in A.walk_no_nested(fn.node):
        if isinstance(n, (ast.Assign, ast.AnnAssign)) and getattr(n, "value", None) is not None:
            tgts = n.targets if isinstance(n, ast.Assign) else [n.target]
            for t in tgts:
                d = A.dotted(t)
                if d and d.startswith("self.") and d.count(".") == 1:
                    val = A.inline_locals(fn.node, n.value, depth=5)
                    reads = d in A.attrs_in(val) or any(a.startswith(d + ".") for a in A.attrs_in(val))
                    evs.append((n.lineno, n.col_offset, "acc" if reads else "plain", d[5:], n))
        elif isinstance(n, ast.AugAssign):
            d = A.dotted(n.target)
            if d and d.startswith("self.") and d.count(".") == 1:
                evs.append((n.lineno, n.col_offset, "acc", d[5:], n))
        elif isinstance(n, ast.Call) and isinstance(n.func, ast.Attribute):
            recv = A.dotted(n.func.value)
            if recv == "self":
                evs.append((n.lineno, n.col_offset, "call", "." + n.func.attr, n))
            elif recv and recv.startswith("self.") and recv.count(".") == 1:
                if n.func.attr in MUT:
                    evs.append((n.lineno, n.col_offset, "mutcall", recv[5:] + "." + n.func.attr, n))
                else:
                    evs.append((n.lineno, n.col_offset, "call", recv[5:] + "." + n.func.attr, n))
            elif isinstance(n.func.value, ast.Call) and norm(n.func.value.func) == "super":
                evs.append((n.lineno, n.col_offset, "call", "super." + n.func.attr, n))
    evs.sort(key=lambda e: (e[0], e[1]))
    return [(k, name, node) for _l, _c, k, name, node in evs]


def walk(prog: Program, cls: ClassInfo, entry: str, max_depth: int = 5):
    """Yields (qualified attribute, node, function, chain) for every accumulating store without an earlier reset."""
    findings = []
    visited_funcs: List[str] = []

    def go(k: ClassInfo, mname: str, prefix: str, reset: Set[str], depth: int, chain: List[str], skip_self: bool = False, owner: Optional[ClassInfo] = None) -> None:
        fn = None
        if skip_self and owner is not None:
            m = prog.mro(k)
            idx = m.index(owner) + 1 if owner in m else 1
            for kk in m[idx:]:
                fn = kk.method(mname)
                if fn:
                    break
        else:
            fn = prog.find_method(k, mname)
        if fn is None or depth > max_depth or fn.qual in chain:
            return
        visited_funcs.append(fn.qual)
        types = attr_types(prog, k)
        for kind, name, node in events(fn):
            if kind == "plain":
                reset.add(prefix + name)
            elif kind == "mutcall":
                recv, meth = name.rsplit(".", 1)
                if recv in types and prog.find_method(types[recv], meth) is not None:
                    go(types[recv], meth, prefix + recv + ".", reset, depth + 1, chain + [fn.qual])
                elif prefix + recv not in reset:
                    findings.append((prefix + recv, node, fn, chain + [fn.qual]))
            elif kind == "acc":
                if prefix + name not in reset:
                    findings.append((prefix + name, node, fn, chain + [fn.qual]))
            else:
                recv, meth = name.rsplit(".", 1)
                if recv == "":
                    go(k, meth, prefix, reset, depth + 1, chain + [fn.qual])
                elif recv == "super":
                    go(k, meth, prefix, reset, depth + 1, chain + [fn.qual], skip_self=True, owner=fn.cls)
                elif recv in types:
                    go(types[recv], meth, prefix + recv + ".", reset, depth + 1, chain + [fn.qual])
    go(cls, entry, "", set(), 0, [])
    return findings, visited_funcs
