"""E18 - comparisons that can never hold because the two sides have different declared types.

From the return annotations of the whole package a table {callable name -> declared return type} is built for the names whose
EVERY definition declares the same simple type (int / str / bytes / bool).  An equality / membership comparison between a call of
such a name and a literal of another simple type is decided at analysis time: it is always False (== , in) or always True (!=), so the
branch it guards is dead - the classic slip of comparing a numeric getter with an enum label (or the reverse)."""
from __future__ import annotations

import ast
from typing import Dict, Iterator, List, Set, Tuple

SIMPLE = {"int": int, "str": str, "bytes": bytes, "bool": bool}


def return_table(modules) -> Dict[str, List[Tuple[int, int, str]]]:
    """{name: [(min args, max args, declared return type)]} over every definition of the name (self/cls not counted)."""
    seen: Dict[str, List[Tuple[int, int, str]]] = {}
    for m in modules:
        for cls_or_mod in ast.walk(m.tree):
            body = getattr(cls_or_mod, "body", None)
            if not isinstance(cls_or_mod, (ast.Module, ast.ClassDef)) or not isinstance(body, list):
                continue
            for n in body:
                if not isinstance(n, (ast.FunctionDef, ast.AsyncFunctionDef)) or n.name.startswith("__"):
                    continue
                ann = ast.unparse(n.returns) if n.returns is not None else "?"
                a = n.args
                static = any(isinstance(d, ast.Name) and d.id == "staticmethod" for d in n.decorator_list)
                npos = len(a.args) - (1 if isinstance(cls_or_mod, ast.ClassDef) and not static and a.args else 0)
                lo = npos - len(a.defaults) + sum(1 for d in a.kw_defaults if d is None)
                hi = 99 if (a.vararg or a.kwarg) else npos + len(a.kwonlyargs)
                seen.setdefault(n.name, []).append((max(lo, 0), hi, ann))
    return seen


def _callee(e: ast.expr) -> str:
    if isinstance(e, ast.Call):
        f = e.func
        if isinstance(f, ast.Attribute):
            return f.attr
        if isinstance(f, ast.Name):
            return f.id
    return ""


def declared(table, call: ast.Call) -> str:
    """The single simple type every definition that fits the call's argument count declares, or ''."""
    name = _callee(call)
    if name not in table or any(isinstance(a, ast.Starred) for a in call.args) or any(k.arg is None for k in call.keywords):
        return ""
    n = len(call.args) + len(call.keywords)
    anns = {ann for lo, hi, ann in table[name] if lo <= n <= hi}
    return next(iter(anns)) if len(anns) == 1 and next(iter(anns)) in SIMPLE else ""


def dead_comparisons(module, table: Dict[str, str]) -> Iterator[Tuple[ast.Compare, str]]:
    for n in ast.walk(module.tree):
        if not (isinstance(n, ast.Compare) and len(n.ops) == 1 and isinstance(n.ops[0], (ast.Eq, ast.NotEq, ast.In, ast.NotIn))):
            continue
        a, b = n.left, n.comparators[0]
        for call, other in ((a, b), (b, a)):
            name = _callee(call)
            dt = declared(table, call) if isinstance(call, ast.Call) else ""
            if not dt:
                continue
            t = SIMPLE[dt]
            lits: List[ast.Constant] = []
            if isinstance(other, ast.Constant):
                lits = [other]
            elif isinstance(other, (ast.List, ast.Tuple, ast.Set)) and isinstance(n.ops[0], (ast.In, ast.NotIn)) and call is a and other.elts and all(isinstance(x, ast.Constant) for x in other.elts):
                lits = list(other.elts)
            if not lits or any(x.value is None for x in lits):
                continue
            def compatible(v) -> bool:
                if t is int:
                    return isinstance(v, (int, float))  # bool is an int
                if t is bool:
                    return isinstance(v, (bool, int))
                return isinstance(v, t)
            if not any(compatible(x.value) for x in lits):
                yield n, f"`{ast.unparse(call)[:80]}` is declared -> {dt} by every definition of `{name}` that takes these arguments, compared with {ast.unparse(other)[:40]}"
