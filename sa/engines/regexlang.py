"""E12 RegexLang - language equality of regular expressions (static: no string is matched with
the repository's code; both patterns are compiled to automata and the product is searched).

re._parser.parse -> Thompson NFA -> on-the-fly subset construction over a finite alphabet of
representatives. Supports the constructs the repository uses; anything else raises Unsupported.
"""
from __future__ import annotations

import re._constants as C  # type: ignore
import re._parser as P  # type: ignore
from typing import Dict, FrozenSet, List, Optional, Set, Tuple


class Unsupported(Exception):
    pass


class NFA:
    def __init__(self) -> None:
        self.eps: Dict[int, Set[int]] = {}
        self.tr: Dict[int, List[Tuple[FrozenSet[str], int]]] = {}
        self.n = 0

    def new(self) -> int:
        self.n += 1
        return self.n - 1

    def add_eps(self, a: int, b: int) -> None:
        self.eps.setdefault(a, set()).add(b)

    def add_tr(self, a: int, chars: FrozenSet[str], b: int) -> None:
        self.tr.setdefault(a, []).append((chars, b))


def _charset(items, alphabet: str, flags: int) -> FrozenSet[str]:
    neg = False
    out: Set[str] = set()
    for op, av in items:
        if op is C.NEGATE:
            neg = True
        elif op is C.LITERAL:
            out.add(chr(av))
        elif op is C.RANGE:
            lo, hi = av
            out.update(c for c in alphabet if lo <= ord(c) <= hi)
        elif op is C.CATEGORY:
            if av is C.CATEGORY_DIGIT:
                out.update(c for c in alphabet if c.isdigit())
            elif av is C.CATEGORY_SPACE:
                out.update(c for c in alphabet if c.isspace())
            elif av is C.CATEGORY_WORD:
                out.update(c for c in alphabet if c.isalnum() or c == "_")
            else:
                raise Unsupported(f"category {av}")
        else:
            raise Unsupported(f"set item {op}")
    if flags & 2:  # IGNORECASE
        out |= {c.lower() for c in out} | {c.upper() for c in out}
    s = frozenset(c for c in alphabet if (c in out) != neg)
    return s


def _build(nfa: NFA, tree, start: int, alphabet: str, flags: int, end_anchor: List[bool]) -> int:
    cur = start
    for op, av in tree:
        if op is C.LITERAL:
            nxt = nfa.new()
            ch = chr(av)
            cs = {ch}
            if flags & 2:
                cs |= {ch.lower(), ch.upper()}
            nfa.add_tr(cur, frozenset(c for c in cs if c in alphabet), nxt)
            cur = nxt
        elif op is C.NOT_LITERAL:
            nxt = nfa.new()
            nfa.add_tr(cur, frozenset(c for c in alphabet if c != chr(av)), nxt)
            cur = nxt
        elif op is C.ANY:
            nxt = nfa.new()
            nfa.add_tr(cur, frozenset(c for c in alphabet if c != "\n"), nxt)
            cur = nxt
        elif op is C.IN:
            nxt = nfa.new()
            nfa.add_tr(cur, _charset(av, alphabet, flags), nxt)
            cur = nxt
        elif op is C.SUBPATTERN:
            _g, add_f, del_f, sub = av
            cur = _build(nfa, sub, cur, alphabet, (flags | add_f) & ~del_f, end_anchor)
        elif op is C.BRANCH:
            _, alts = av
            out = nfa.new()
            for alt in alts:
                s = nfa.new()
                nfa.add_eps(cur, s)
                e = _build(nfa, alt, s, alphabet, flags, end_anchor)
                nfa.add_eps(e, out)
            cur = out
        elif op in (C.MAX_REPEAT, C.MIN_REPEAT):
            lo, hi, sub = av
            for _ in range(lo):
                cur = _build(nfa, sub, cur, alphabet, flags, end_anchor)
            if hi is C.MAXREPEAT:
                s = nfa.new()
                nfa.add_eps(cur, s)
                e = _build(nfa, sub, s, alphabet, flags, end_anchor)
                nfa.add_eps(e, s)
                cur = s
            else:
                if hi - lo > 64:
                    raise Unsupported("large bounded repeat")
                out = nfa.new()
                nfa.add_eps(cur, out)
                for _ in range(hi - lo):
                    cur = _build(nfa, sub, cur, alphabet, flags, end_anchor)
                    nfa.add_eps(cur, out)
                cur = out
        elif op is C.AT:
            if av in (C.AT_END, C.AT_END_STRING):
                # only supported as the last element of the top-level pattern (checked by caller)
                end_anchor[0] = True
            elif av in (C.AT_BEGINNING, C.AT_BEGINNING_STRING):
                pass  # all supported entry points anchor at the start
            else:
                raise Unsupported(f"anchor {av}")
        else:
            raise Unsupported(f"regex op {op}")
    return cur


class Lang:
    """Language over `alphabet` of strings s such that re.<mode>(pattern, s) succeeds."""

    def __init__(self, pattern: str, mode: str = "match", flags: int = 0, alphabet: str = ""):
        self.alphabet = alphabet
        tree = P.parse(pattern, flags)
        self.flags = tree.state.flags | flags
        self.nfa = NFA()
        self.start = self.nfa.new()
        ea = [False]
        items = list(tree)
        # '$' must be trailing if present
        for i, (op, av) in enumerate(items):
            if op is C.AT and av in (C.AT_END, C.AT_END_STRING) and i != len(items) - 1:
                raise Unsupported("non-trailing end anchor")
        s = self.start
        if mode == "search" and not (items and items[0][0] is C.AT and items[0][1] in (C.AT_BEGINNING, C.AT_BEGINNING_STRING)):
            self.nfa.add_tr(s, frozenset(alphabet), s)
        end = _build(self.nfa, tree, s, alphabet, self.flags, ea)
        if mode in ("match", "search") and not ea[0]:
            self.nfa.add_tr(end, frozenset(alphabet), end)  # any suffix allowed
        self.accept = end

    def closure(self, states: FrozenSet[int]) -> FrozenSet[int]:
        st = set(states)
        work = list(states)
        while work:
            x = work.pop()
            for y in self.nfa.eps.get(x, ()):
                if y not in st:
                    st.add(y)
                    work.append(y)
        return frozenset(st)

    def initial(self) -> FrozenSet[int]:
        return self.closure(frozenset([self.start]))

    def step(self, states: FrozenSet[int], ch: str) -> FrozenSet[int]:
        nxt = set()
        for x in states:
            for cs, y in self.nfa.tr.get(x, ()):
                if ch in cs:
                    nxt.add(y)
        return self.closure(frozenset(nxt))

    def accepting(self, states: FrozenSet[int]) -> bool:
        return self.accept in states


def difference(a: Lang, b: Lang) -> Tuple[int, Optional[Tuple[str, str]]]:
    """Product search. Returns (product states explored, None) when L(a) == L(b), else a shortest
    witness (string, 'only-first'|'only-second')."""
    assert a.alphabet == b.alphabet
    start = (a.initial(), b.initial())
    seen = {start: ""}
    work = [start]
    while work:
        nxt_work = []
        for st in work:
            w = seen[st]
            fa, fb = a.accepting(st[0]), b.accepting(st[1])
            if fa != fb:
                return len(seen), (w, "only-first" if fa else "only-second")
            for ch in a.alphabet:
                n = (a.step(st[0], ch), b.step(st[1], ch))
                if n not in seen:
                    seen[n] = w + ch
                    nxt_work.append(n)
        work = nxt_work
    return len(seen), None


def enumerate_lang(lang: Lang, max_len: int = 4, limit: int = 64) -> List[str]:
    out: List[str] = []
    work = [("", lang.initial())]
    for _ in range(max_len + 1):
        nxt = []
        for w, st in work:
            if lang.accepting(st):
                out.append(w)
                if len(out) >= limit:
                    return out
            for ch in lang.alphabet:
                n = lang.step(st, ch)
                if n:
                    nxt.append((w + ch, n))
        work = nxt
    return out


def included(a: Lang, b: Lang) -> Tuple[int, Optional[str]]:
    """L(a) subset of L(b)? Returns (states explored, None) or a shortest witness in L(a) - L(b)."""
    assert a.alphabet == b.alphabet
    start = (a.initial(), b.initial())
    seen = {start: ""}
    work = [start]
    while work:
        nxt_work = []
        for st in work:
            w = seen[st]
            if a.accepting(st[0]) and not b.accepting(st[1]):
                return len(seen), w
            for ch in a.alphabet:
                n = (a.step(st[0], ch), b.step(st[1], ch))
                if not n[0]:
                    continue
                if n not in seen:
                    seen[n] = w + ch
                    nxt_work.append(n)
        work = nxt_work
    return len(seen), None


def split_alternatives(pattern: str) -> List[str]:
    """Top-level alternatives of a pattern (split on `|` outside groups and classes)."""
    out, depth, cls, cur, i = [], 0, False, "", 0
    while i < len(pattern):
        ch = pattern[i]
        if ch == "\\" and i + 1 < len(pattern):
            cur += pattern[i:i + 2]
            i += 2
            continue
        if cls:
            cls = ch != "]"
        elif ch == "[":
            cls = True
        elif ch == "(":
            depth += 1
        elif ch == ")":
            depth -= 1
        elif ch == "|" and depth == 0:
            out.append(cur)
            cur = ""
            i += 1
            continue
        cur += ch
        i += 1
    out.append(cur)
    return out
