"""Late binding of per-variant class constants: when a subclass overrides a class-level constant (IAE_TYPE, SIGNATURE_BLOCK,
FORMAT, sizes ...), the base class must read it through `cls.`/`self.` - a hard-coded `Base.CONST` inside Base's own methods
silently gives the variant the base's value."""
from __future__ import annotations

import ast
from typing import Iterable

from ..core import astutil as A
from ..core.report import norm


def check(ctx, rule: str, modules: Iterable[str]) -> int:
    prog, chk = ctx.prog, ctx.chk
    mods = set(modules)
    n = 0
    for k in prog.classes.values():
        if k.module.relpath not in mods:
            continue
        subs = prog.subclasses(k)
        if not subs:
            continue
        overridden = {c for c in k.consts if any(c in s.consts for s in subs)}
        if not overridden:
            continue
        for name, fns in k.methods.items():
            for fn in fns:
                if fn.is_staticmethod if hasattr(fn, "is_staticmethod") else False:
                    continue
                for a in [x for x in ast.walk(fn.node) if isinstance(x, ast.Attribute) and isinstance(x.ctx, ast.Load)]:
                    if isinstance(a.value, ast.Name) and a.value.id == k.name and a.attr in overridden:
                        n += 1
                        who = sorted(s.name for s in subs if a.attr in s.consts)
                        chk.bad(rule, f"{fn.qual} `{norm(a)}`", f"`{k.name}.{a.attr}` is hard-coded although {who} override `{a.attr}`: instances of those classes get the base value here",
                                f"cls.{a.attr} / self.{a.attr}", A.loc(fn.module.relpath, a))
        n += len(overridden)
    return n
