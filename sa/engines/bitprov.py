"""E2 BitProv - abstract interpretation of integer expressions over bit provenance.

A value is a list of W bits, each bit one of 0, 1, (var, index, negated). Supported operators:
<< >> by folded constants, & | ^ with per-bit rules, ~, + of operands with disjoint support
(= OR), bool()/int() transparent, conditional expressions are not supported (Top).
Anything else is Top -> the instance is UNRESOLVED (never a verdict).
"""
from __future__ import annotations

import ast
from typing import Any, Callable, Dict, List, Optional, Tuple, Union

W = 72
Bit = Union[int, Tuple[str, int, bool]]


class Top(Exception):
    def __init__(self, node: ast.AST, why: str = ""):
        super().__init__(f"{ast.unparse(node)[:80]} {why}")


class SymbolicShift(Exception):
    """A shift whose amount depends on a variable (field position depends on another value)."""

    def __init__(self, node: ast.AST):
        super().__init__(ast.unparse(node)[:100])
        self.node = node


def const_bits(v: int) -> List[Bit]:
    return [(v >> i) & 1 for i in range(W)]


def var_bits(name: str, width: int = W) -> List[Bit]:
    return [(name, i, False) if i < width else 0 for i in range(W)]


def is_const(b: List[Bit]) -> bool:
    return all(isinstance(x, int) for x in b)


def to_int(b: List[Bit]) -> int:
    return sum((x << i) for i, x in enumerate(b) if isinstance(x, int))


def _and(a: Bit, b: Bit) -> Bit:
    if a == 0 or b == 0:
        return 0
    if a == 1:
        return b
    if b == 1:
        return a
    if a == b:
        return a
    if isinstance(a, tuple) and isinstance(b, tuple) and a[:2] == b[:2] and a[2] != b[2]:
        return 0
    raise ValueError("and of distinct symbolic bits")


def _or(a: Bit, b: Bit) -> Bit:
    if a == 1 or b == 1:
        return 1
    if a == 0:
        return b
    if b == 0:
        return a
    if a == b:
        return a
    if isinstance(a, tuple) and isinstance(b, tuple) and a[:2] == b[:2] and a[2] != b[2]:
        return 1
    raise ValueError("or of distinct symbolic bits")


def _xor(a: Bit, b: Bit) -> Bit:
    if a == 0:
        return b
    if b == 0:
        return a
    if a == 1:
        return _not(b)
    if b == 1:
        return _not(a)
    if a == b:
        return 0
    raise ValueError("xor of distinct symbolic bits")


def _not(a: Bit) -> Bit:
    if isinstance(a, int):
        return 1 - a
    return (a[0], a[1], not a[2])


class BitEval:
    def __init__(self, env: Dict[str, List[Bit]], fold: Optional[Callable[[ast.expr], Any]] = None,
                 sym: Optional[Callable[[ast.expr], Optional[List[Bit]]]] = None):
        self.env = env
        self.fold = fold
        self.sym = sym

    def ev(self, e: ast.expr) -> List[Bit]:
        if self.sym is not None:
            s = self.sym(e)
            if s is not None:
                return s
        if isinstance(e, ast.Constant) and isinstance(e.value, (int, bool)):
            return const_bits(int(e.value))
        if isinstance(e, ast.Name) and e.id in self.env:
            return self.env[e.id]
        if self.fold is not None and not isinstance(e, (ast.BinOp, ast.UnaryOp)):
            v = self.fold(e)
            if isinstance(v, (int, bool)) and not isinstance(v, type(None)):
                return const_bits(int(v))
        if isinstance(e, ast.Call) and isinstance(e.func, ast.Name) and e.func.id in ("int", "bool") and len(e.args) == 1:
            b = self.ev(e.args[0])
            if e.func.id == "bool":
                nz = [x for x in b if x != 0]
                if len(nz) > 1:
                    raise Top(e, "bool of multi-bit value")
                return [nz[0] if nz else 0] + [0] * (W - 1)
            return b
        if isinstance(e, ast.UnaryOp) and isinstance(e.op, ast.Invert):
            return [_not(x) for x in self.ev(e.operand)]
        if isinstance(e, ast.BinOp):
            op = e.op
            if isinstance(op, (ast.LShift, ast.RShift)):
                a = self.ev(e.left)
                try:
                    sh = self.ev(e.right)
                except Top:
                    raise SymbolicShift(e)
                if not is_const(sh):
                    raise SymbolicShift(e)
                n = to_int(sh)
                if n >= W:
                    raise Top(e, "shift too large")
                if isinstance(op, ast.LShift):
                    return ([0] * n + a)[:W]
                return a[n:] + [0] * n
            a, b = self.ev(e.left), self.ev(e.right)
            try:
                if isinstance(op, ast.BitAnd):
                    return [_and(x, y) for x, y in zip(a, b)]
                if isinstance(op, ast.BitOr):
                    return [_or(x, y) for x, y in zip(a, b)]
                if isinstance(op, ast.BitXor):
                    return [_xor(x, y) for x, y in zip(a, b)]
                if isinstance(op, ast.Add):
                    # a + b == a | b when supports are disjoint
                    if all(x == 0 or y == 0 for x, y in zip(a, b)):
                        return [_or(x, y) for x, y in zip(a, b)]
                    if is_const(a) and is_const(b):
                        return const_bits(to_int(a) + to_int(b))
                    raise Top(e, "+ with overlapping support")
                if isinstance(op, ast.Sub) and is_const(a) and is_const(b):
                    return const_bits(to_int(a) - to_int(b))
                if isinstance(op, ast.Mult) and is_const(a) and is_const(b):
                    return const_bits(to_int(a) * to_int(b))
            except ValueError as ex:
                raise Top(e, str(ex))
        raise Top(e)


def field_of(bits: List[Bit], var: str) -> Dict[int, Tuple[int, bool]]:
    """positions in the result that carry bits of var: result_pos -> (var_bit_index, negated)"""
    return {i: (b[1], b[2]) for i, b in enumerate(bits) if isinstance(b, tuple) and b[0] == var}
