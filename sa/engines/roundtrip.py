"""E19 - export/parse round trip decided by finite-model evaluation.

The class under analysis is instantiated on the evaluator (its own __init__ is interpreted), `export()` is interpreted to a concrete
byte string, `parse()` is interpreted on that byte string, and the fields of the two model objects are compared.  Nothing of the
repository is imported or run: the methods are read from the source and interpreted statement by statement by sa.engines.ordereval;
struct.pack/unpack and a handful of pure builtins are the only leaves, everything else a rule needs is given as `leaves`.
A method that leaves the evaluator's fragment is an ANALYSIS-ERROR (fail closed), never a silent pass."""
from __future__ import annotations

import ast
import struct
from typing import Any, Callable, Dict, List, Optional, Tuple

from ..core import astutil as A
from ..core.loader import AnalysisError
from ..core.report import norm
from . import ordereval as oe


def std_leaves(c: ast.Call, ev):
    f = norm(c.func)
    if f in ("pack", "struct.pack") and c.args:
        try:
            return struct.pack(ev.ev(c.args[0]), *[x for a in c.args[1:] for x in (ev.ev(a.value) if isinstance(a, ast.Starred) else (ev.ev(a),))])
        except struct.error:
            raise oe.ModelRaise(oe.Outcome("raise", "struct.error", c))
    if f in ("unpack", "struct.unpack") and len(c.args) == 2:
        try:
            return tuple(struct.unpack(ev.ev(c.args[0]), bytes(ev.ev(c.args[1]))))
        except struct.error:
            raise oe.ModelRaise(oe.Outcome("raise", "struct.error", c))
    if f in ("unpack_from", "struct.unpack_from") and 2 <= len(c.args) + len(c.keywords) <= 3:
        off = A.arg_of(c, 2, "offset")
        try:
            return tuple(struct.unpack_from(ev.ev(c.args[0]), bytes(ev.ev(c.args[1])), ev.ev(off) if off is not None else 0))
        except struct.error:
            raise oe.ModelRaise(oe.Outcome("raise", "struct.error", c))
    if f in ("calcsize", "struct.calcsize") and len(c.args) == 1:
        return struct.calcsize(ev.ev(c.args[0]))
    if f == "align_block" and 1 <= len(c.args) + len(c.keywords) <= 3 and all(k.arg in ("data", "alignment", "padding") for k in c.keywords):
        d_ = A.arg_of(c, 0, "data")
        al = A.arg_of(c, 1, "alignment")
        pd = A.arg_of(c, 2, "padding")
        data = bytes(ev.ev(d_))
        n = ev.ev(al) if al is not None else 4
        fill = ev.ev(pd) if pd is not None else 0
        if not isinstance(n, int) or n <= 0 or not (fill is None or isinstance(fill, int)):
            return oe.NOT_MODELLED
        return data + bytes([fill or 0]) * (-len(data) % n)
    if f.endswith("align_block_fill_random") and 1 <= len(c.args) <= 2 and not c.keywords:
        # random padding is a leaf: any fixed filler shows where the padding goes (the reader must not depend on its value)
        data = bytes(ev.ev(c.args[0]))
        n = ev.ev(c.args[1]) if len(c.args) == 2 else 16
        return data + b"\xA5" * (-len(data) % n) if isinstance(n, int) and n > 0 else oe.NOT_MODELLED
    if f == "random_bytes" and len(c.args) == 1 and not c.keywords:
        k = ev.ev(c.args[0])
        if isinstance(k, int) and 0 <= k < 4096:
            return b"\xA5" * k  # random data is a leaf: a fixed filler marks where it goes
    if f in ("swap16", "swap32", "misc.swap16", "misc.swap32") and len(c.args) == 1 and not c.keywords:
        v = ev.ev(c.args[0])
        w = 2 if f.endswith("16") else 4
        if isinstance(v, int) and not isinstance(v, bool):
            if not 0 <= v < (1 << (8 * w)):
                raise oe.ModelRaise(oe.Outcome("raise", None, c))
            return int.from_bytes(v.to_bytes(w, "big"), "little")
    if f in ("re.match", "re.fullmatch", "re.search") and len(c.args) == 2 and not c.keywords:
        import re
        pat, subj = ev.ev(c.args[0]), ev.ev(c.args[1])
        if isinstance(pat, str) and isinstance(subj, str):
            m = getattr(re, f.split(".")[1])(pat, subj)
            return ("match", m.group(0)) if m else None  # used for its truth value
    if f in ("align", "misc.align") and 1 <= len(c.args) <= 2 and not c.keywords:
        v = ev.ev(c.args[0])
        n = ev.ev(c.args[1]) if len(c.args) == 2 else 4
        if isinstance(v, int) and isinstance(n, int) and n > 0:
            return -(-v // n) * n
    if f == "from_crc_algorithm" and len(c.args) == 1:
        return oe.Obj(_crc=norm(c.args[0]))
    if isinstance(c.func, ast.Attribute) and c.func.attr == "calculate" and len(c.args) == 1 and not c.keywords:
        try:
            o = ev.ev(c.func.value)
        except oe.Unsupported:
            o = None
        if isinstance(o, oe.Obj) and "_crc" in o.__dict__:
            import zlib
            return zlib.crc32(o.__dict__["_crc"].encode() + b"|" + bytes(ev.ev(c.args[0])))  # stand-in: (algorithm, covered bytes) -> value
    if f == "extend_block" and 2 <= len(c.args) + len(c.keywords) <= 3 and all(k.arg in ("data", "length", "padding") for k in c.keywords):
        data = bytes(ev.ev(A.arg_of(c, 0, "data")))
        n = ev.ev(A.arg_of(c, 1, "length"))
        pd = A.arg_of(c, 2, "padding")
        fill = ev.ev(pd) if pd is not None else 0
        if not isinstance(n, int) or not isinstance(fill, int):
            return oe.NOT_MODELLED
        if n < len(data):
            raise oe.ModelRaise(oe.Outcome("raise", None, c))
        return data + bytes([fill]) * (n - len(data))
    if isinstance(c.func, ast.Attribute) and c.func.attr == "bit_length" and not c.args:
        v = ev.ev(c.func.value)
        if isinstance(v, int):
            return v.bit_length()
    if f in ("math.ceil", "ceil") and len(c.args) == 1:
        v = ev.ev(c.args[0])
        return int(-(-v // 1)) if isinstance(v, (int, float)) else oe.NOT_MODELLED
    return oe.NOT_MODELLED


def fields_of(o: Any, depth: int = 3) -> Any:
    """Comparable snapshot of a model object: its data attributes, nested model objects included."""
    if isinstance(o, oe.Obj):
        if depth == 0:
            return "<obj>"
        return {k: fields_of(v, depth - 1) for k, v in sorted(o.__dict__.items()) if k != "_cls"}
    if isinstance(o, (bytearray, bytes)):
        return bytes(o)
    if isinstance(o, (tuple, list)):
        return tuple(fields_of(x, depth) for x in o)
    if isinstance(o, dict):
        return {k: fields_of(v, depth) for k, v in o.items()}
    return o


class RoundTrip:
    def __init__(self, ctx, relpath: str, cname: str, leaves: Optional[Callable] = None, sym_map: Optional[Dict[str, Any]] = None,
                 extra_classes: Optional[Dict[str, Any]] = None, max_depth: int = 8):
        self.ctx, self.relpath, self.cname = ctx, relpath, cname
        self.cls = ctx.cls(relpath, cname)
        classes = {c.name: c for c in ctx.prog.classes.values() if c.module is self.cls.module}
        classes.update(extra_classes or {})
        self.classes = classes

        def both(c, ev):
            if leaves is not None:
                v = leaves(c, ev)
                if v is not oe.NOT_MODELLED:
                    return v
            return std_leaves(c, ev)
        self.calls = ctx.model_calls(both, sym_map, classes=classes, module=relpath, max_depth=max_depth)
        init = ctx.prog.find_method(self.cls, "__init__")
        self.sym = ctx.fold_sym(init, sym_map) if init is not None else None
        for mname in ("__init__", "export", "parse"):
            m = ctx.prog.find_method(self.cls, mname)
            if m is not None:
                ctx.chk.analysed(m.qual)

    def ev(self, text: str, env: Dict[str, Any]) -> Any:
        e = oe.Evaluator(dict(env), self.sym, opaque_return=False, call_value=self.calls)
        try:
            return e.ev(ast.parse(text, mode="eval").body)
        except oe.Unsupported as ex:
            raise AnalysisError(f"round trip of {self.cname}: `{text}` left the fragment: {ex}")

    def run(self, ctor_kwargs: Dict[str, Any], writer: str = "export", reader: str = "parse", reader_extra: str = "", setup: Tuple[str, ...] = ()) -> Tuple[Any, Any, Any]:
        """(fields of the built object, exported bytes, fields of the parsed object); a raise on the model is reported as ('raise', where).
        Keys starting with `__setup` hold method calls on `obj` that complete the construction (obj.add_x(...))."""
        setup = tuple(setup) + tuple(v for k, v in ctor_kwargs.items() if k.startswith("__setup"))
        ctor_kwargs = {k: v for k, v in ctor_kwargs.items() if not k.startswith("__setup")}
        args = ", ".join(f"{k}={k}" for k in ctor_kwargs)
        try:
            obj = self.ev(f"{self.cname}({args})", ctor_kwargs)
            for stmt in setup:
                e = oe.Evaluator({"obj": obj}, self.sym, opaque_return=False, call_value=self.calls)
                try:
                    out = e.run(ast.parse(stmt).body)  # a statement: `obj.add_x(...)` or `obj.field = value`
                except oe.Unsupported as ex:
                    raise AnalysisError(f"round trip of {self.cname}: `{stmt}` left the fragment: {ex}")
                if out.kind == "raise":
                    return ("raise", "constructor", stmt), None, None
        except oe.ModelRaise as mr:
            return ("raise", "constructor", str(mr)), None, None
        try:
            data = self.ev(f"obj.{writer}()", {"obj": obj})
        except oe.ModelRaise as mr:
            return fields_of(obj), ("raise", str(mr)), None
        before = fields_of(obj)
        try:
            obj2 = self.ev(f"{self.cname}.{reader}(data{reader_extra})", {"data": bytes(data) if isinstance(data, (bytes, bytearray)) else data})
            # fields that are brought up to date by export() (lengths kept in headers) are compared after both sides exported
            data2 = self.ev(f"obj.{writer}()", {"obj": obj2})
        except oe.ModelRaise as mr:
            return before, data, ("raise", str(mr))
        self.data2 = bytes(data2) if isinstance(data2, (bytes, bytearray)) else data2
        return before, data, fields_of(obj2)


def check_classes(ctx, rule: str, relpath: str, table, extra_classes=None, leaves=None, sym_map=None, floor: int = 1) -> int:
    """table: [(class name, [constructor keyword models ...])].  One obligation per class: on every model the exported bytes parse back
    to an object with the same fields, and exporting that object reproduces the bytes."""
    n = 0
    for entry in table:
        cname, models = entry[0], entry[1]
        opts = entry[2] if len(entry) > 2 else {}
        ignore = set(opts.get("ignore", ()))  # fields that are not content (random padding), one reason each in the rule's table
        rt = RoundTrip(ctx, relpath, cname, leaves, sym_map, extra_classes)
        probs = []
        # small-value sweep: every integer argument of every model is replaced, one at a time, by 0 (a value, not "absent") and, in the
        # thorough tier, by 1 and 2.  A variant the constructor or export refuses is not an obligation; one that is accepted must
        # round-trip like the listed models.  (All-ones / width-boundary values were tried and dropped: without the field widths they
        # mostly produce inputs outside the format's domain - memory ids above 12 bits, 64 K-bit curves - whose silent truncation is a
        # robustness question the properties do not ask.)
        sweep = (0,) if ctx.chk.tier != "thorough" else (0, 1, 2)
        variants = []
        if opts.get("sweep", True):
            seen_v = set()
            for kw in models:
                for key, val in kw.items():
                    if isinstance(val, int) and not isinstance(val, bool) and not key.startswith("__"):
                        for v in sweep:
                            if v != val and (key, v, id(kw)) not in seen_v:
                                seen_v.add((key, v, id(kw)))
                                variants.append(dict(kw, **{key: v}))
        for vi, kw in enumerate(list(models) + variants):
            is_variant = vi >= len(models)
            built, data, parsed = rt.run(kw)
            if is_variant and ((isinstance(built, tuple) and built and built[0] == "raise") or not isinstance(data, (bytes, bytearray))):
                continue  # refused: nothing to round-trip
            if ignore and isinstance(built, dict) and isinstance(parsed, dict):
                built = {k: v for k, v in built.items() if k not in ignore}
                parsed = {k: v for k, v in parsed.items() if k not in ignore}
            if opts.get("reexport") is False:
                rt.data2 = bytes(data) if isinstance(data, (bytes, bytearray)) else data
            n += 1
            shown = {k: (v if not isinstance(v, (bytes, bytearray)) else v.hex()[:16]) for k, v in kw.items()}
            if isinstance(built, tuple) and built and built[0] == "raise":
                probs.append(f"{shown}: the constructor refuses the model")
            elif not isinstance(data, (bytes, bytearray)):
                probs.append(f"{shown}: export() -> {data!r}")
            elif isinstance(parsed, tuple) and parsed and parsed[0] == "raise":
                probs.append(f"{shown}: parse() refuses what export() produced ({data.hex()[:48]})")
            elif parsed != built:
                diff = sorted(k for k in set(built) | set(parsed) if built.get(k) != parsed.get(k)) if isinstance(built, dict) and isinstance(parsed, dict) else []
                probs.append(f"{shown}: fields {diff} differ after parse(export()): built {str({k: built.get(k) for k in diff})[:160]} parsed {str({k: parsed.get(k) for k in diff})[:160]}")
            elif rt.data2 != bytes(data):
                probs.append(f"{shown}: export(parse(export())) differs from export(): {bytes(data).hex()[:48]} vs {rt.data2.hex()[:48] if isinstance(rt.data2, bytes) else rt.data2}")
        ctx.chk.decide(not probs, rule, f"{relpath}::{cname} export<->parse", f"parse(export(x)) has the fields of x and exports to the same bytes ({len(models)} model objects, methods interpreted on the model)",
                       "; ".join(probs[:2])[:700], "", A.loc(relpath, rt.cls.node))
    ctx.chk.exhaustive_rules.add(rule)
    ctx.chk.floor(rule, floor)
    return n
