"""E6 MustCheck - a verification result must guard success.

For every call to a verification primitive inside a reader function, the value must (after inlining
single-definition locals) be an operand of the test of an `if` whose failing polarity raises; the guard may
only be nested under conditions that the rule instance lists as legitimate (e.g. 'SHA present' flag)."""
from __future__ import annotations

import ast
from typing import Dict, List, Optional, Sequence, Set, Tuple

from ..core import astutil as A
from ..core.report import norm
from ..core.symtab import FuncInfo


class Guard:
    def __init__(self, call: ast.Call, iff: Optional[ast.AST], polarity_ok: bool, why: str, conditions: List[str]):
        self.call, self.iff, self.polarity_ok, self.why, self.conditions = call, iff, polarity_ok, why, conditions


def _contains(node: ast.AST, target: ast.AST) -> bool:
    return any(n is target for n in ast.walk(node))


def _polarity(test: ast.expr, mentions, iff: ast.If) -> Tuple[bool, str]:
    """mentions(expr) -> True if the verified value occurs in expr."""
    body_raises = A.always_raises(iff.body)
    else_raises = bool(iff.orelse) and A.always_raises(iff.orelse)
    t = test
    if isinstance(t, ast.UnaryOp) and isinstance(t.op, ast.Not) and mentions(t.operand):
        # `if not verify(...)`: raise   /   `if not (a == b)`: raise
        inner = t.operand
        if isinstance(inner, ast.Compare) and len(inner.ops) == 1 and isinstance(inner.ops[0], ast.NotEq):
            return (else_raises and not body_raises, "not (a != b)")
        return (body_raises, "if not <ok>: raise")
    if isinstance(t, ast.Compare) and len(t.ops) == 1 and mentions(t):
        if isinstance(t.ops[0], (ast.NotEq, ast.IsNot)):
            return (body_raises, "if a != b: raise")
        if isinstance(t.ops[0], (ast.Eq, ast.Is)):
            return (else_raises and not body_raises, "if a == b: ... else: raise")
        return (False, f"comparison {type(t.ops[0]).__name__}")
    if mentions(t) and not isinstance(t, ast.BoolOp):
        return (else_raises and not body_raises, "if <ok>: ... else: raise")
    if isinstance(t, ast.BoolOp) and isinstance(t.op, ast.Or):
        # any failing disjunct raises
        for v in t.values:
            if mentions(v):
                ok, how = _polarity(v, mentions, iff)
                return ok, how + " (in or)"
    if isinstance(t, ast.BoolOp) and isinstance(t.op, ast.And):
        for v in t.values:
            if mentions(v):
                ok, how = _polarity(v, mentions, iff)
                return False, how + " (under `and`: the other operand can mask the failure)"
    return (False, "unrecognised test")


def find_guards(fn: FuncInfo, prims: Set[str], only_calls: Optional[Sequence[ast.Call]] = None) -> List[Guard]:
    out: List[Guard] = []
    calls = list(only_calls) if only_calls is not None else [c for c in A.calls_in(fn.node) if A.call_name(c) in prims]
    for c in calls:
        # names the value flows into (single-step locals)
        holders: Set[str] = set()
        st = A.enclosing_stmt(c)
        if isinstance(st, (ast.Assign, ast.AnnAssign)) and st.value is not None and _contains(st.value, c):
            tgt = st.targets[0] if isinstance(st, ast.Assign) else st.target
            if isinstance(tgt, ast.Name):
                holders.add(tgt.id)

        def mentions(e: ast.AST, c=c, holders=holders) -> bool:
            for n in ast.walk(e):
                if n is c:
                    return True
                if isinstance(n, ast.Name) and n.id in holders and isinstance(n.ctx, ast.Load):
                    return True
            return False
        found: Optional[ast.If] = None
        for n in A.walk_no_nested(fn.node):
            if isinstance(n, ast.If) and mentions(n.test) and (n.lineno >= c.lineno or _contains(n.test, c)):
                found = n
                break
            if isinstance(n, ast.Assert) and mentions(n.test):
                found = n  # type: ignore[assignment]
                break
        if found is None:
            out.append(Guard(c, None, False, "result never reaches a raising guard", []))
            continue
        if isinstance(found, ast.Assert):
            out.append(Guard(c, found, False, "assert is not a check (stripped with -O)", []))
            continue
        ok, how = _polarity(found.test, mentions, found)
        conds = []
        for anc in A.ancestors(found):
            if anc is fn.node:
                break
            if isinstance(anc, ast.If):
                in_body = any(_contains(s, found) for s in anc.body)
                conds.append(("" if in_body else "not ") + norm(anc.test))
        # the call itself may sit under a condition as well
        for anc in A.ancestors(c):
            if anc is fn.node:
                break
            if isinstance(anc, ast.If) and anc is not found:
                in_body = any(_contains(s, c) for s in anc.body)
                t = ("" if in_body else "not ") + norm(anc.test)
                if t not in conds:
                    conds.append(t)
        out.append(Guard(c, found, ok, how, conds))
    return out


def check_function(ctx, rule: str, fn: FuncInfo, prims: Set[str], allowed_conditions: Sequence[str] = (), floor: int = 1, label: str = "") -> int:
    gs = find_guards(fn, prims)
    relpath = fn.module.relpath
    n = 0
    for g in gs:
        n += 1
        what = norm(g.call)[:90]
        construct = f"{fn.qual} {label}`{what}`"
        extra = [c for c in g.conditions if c not in allowed_conditions]
        if g.iff is None or not g.polarity_ok:
            ctx.chk.bad(rule, construct, f"{g.why}" + (f": `{norm(g.iff.test)[:80]}`" if g.iff is not None and hasattr(g.iff, 'test') else ""),
                        "the verification result must reach `if <mismatch>: raise` (failing polarity raises)", A.loc(relpath, g.call))
        elif extra:
            ctx.chk.bad(rule, construct, f"the check only runs under `{extra[0]}`", f"unconditional check (allowed conditions: {list(allowed_conditions)})", A.loc(relpath, g.iff))
        else:
            ctx.chk.ok(rule, construct, f"guards success: {g.why}" + (f" under {g.conditions}" if g.conditions else ""))
    if n < floor:
        from ..core.loader import AnalysisError
        raise AnalysisError(f"{rule}: expected at least {floor} verification call(s) {sorted(prims)} in {fn.qual}, found {n}")
    return n
