"""ByteLayout - symbolic layout of bytes-building code.

Evaluates straight-line bytes construction (literals, bytes(n), int.to_bytes, struct.pack, +, +=,
conditional expressions) into a list of fields (size, kind, byte order, normalised source).
Anything outside the fragment yields an opaque field of unknown size - never a verdict by itself.
"""
from __future__ import annotations

import ast
from typing import Any, Callable, Dict, List, Optional

from ..core import astutil as A
from ..core.report import norm
from ..core.symtab import UNKNOWN, struct_items, byte_order


class Field:
    def __init__(self, size: Optional[int], kind: str, src: str = "", order: Optional[str] = None, value: Optional[bytes] = None,
                 alts: Optional[List[List["Field"]]] = None, test: str = "", code: str = ""):
        self.size, self.kind, self.src, self.order, self.value, self.alts, self.test, self.code = size, kind, src, order, value, alts, test, code

    def desc(self) -> Any:
        if self.kind == "const":
            return (self.size, "const", self.value.hex() if self.value is not None else None)
        if self.kind == "zeros":
            return (self.size, "zeros")
        if self.kind == "int":
            return (self.size, "int", self.order, self.src)
        if self.kind == "alt":
            return (self.size, "alt", self.test, [[f.desc() for f in a] for a in (self.alts or [])])
        return (self.size, self.kind, self.src)

    def __repr__(self) -> str:
        return repr(self.desc())


def total(fields: List[Field]) -> Optional[int]:
    t = 0
    for f in fields:
        if f.size is None:
            return None
        t += f.size
    return t


def merge_consts(fields: List[Field]) -> List[Field]:
    """zeros and const neighbours are merged into one const field (layout-insensitive to how constants are spelled)."""
    out: List[Field] = []
    for f in fields:
        g = f
        if f.kind == "zeros" and f.size is not None:
            g = Field(f.size, "const", value=bytes(f.size))
        if out and out[-1].kind == "const" and g.kind == "const" and out[-1].value is not None and g.value is not None:
            out[-1] = Field(out[-1].size + g.size, "const", value=out[-1].value + g.value)
        else:
            out.append(g)
    return out


def _understood(lay: List[Field]) -> bool:
    for f in lay:
        if f.kind in ("int", "const", "zeros"):
            return True
        if f.kind == "alt" and any(_understood(a) for a in (f.alts or [])):
            return True
        if f.kind == "bytes" and f.size is not None:
            return True
    return False


_ORDER = {"little": "little", "big": "big", "<": "little", ">": "big", "!": "big"}


class Layout:
    def __init__(self, fold: Callable[[ast.expr], Any], fn: Optional[ast.AST] = None, order_of: Optional[Callable[[ast.expr], Optional[str]]] = None):
        self.fold = fold
        self.fn = fn
        self.env: Dict[str, List[Field]] = {}
        self.order_of = order_of

    def order(self, e: Optional[ast.expr]) -> Optional[str]:
        if e is None:
            return None
        if self.order_of is not None:
            o = self.order_of(e)
            if o:
                return o
        v = self.fold(e)
        if isinstance(v, str) and v in _ORDER:
            return _ORDER[v]
        t = norm(e).lower()
        if "little" in t:
            return "little"
        if "big" in t:
            return "big"
        return f"?{norm(e)}"

    def src(self, e: ast.expr) -> str:
        if self.fn is not None:
            e = A.inline_locals(self.fn, e, keep=list(self.env))
        v = self.fold(e)
        if isinstance(v, int) and not isinstance(v, bool):
            return str(v)
        return norm(e)

    def expr(self, e: ast.expr) -> List[Field]:
        v = self.fold(e)
        if isinstance(v, (bytes, bytearray)):
            return [Field(len(v), "const", value=bytes(v))]
        if isinstance(e, ast.Name) and e.id in self.env:
            return list(self.env[e.id])
        if isinstance(e, ast.BinOp) and isinstance(e.op, ast.Add):
            return self.expr(e.left) + self.expr(e.right)
        if isinstance(e, ast.IfExp):
            a, b = self.expr(e.body), self.expr(e.orelse)
            ta, tb = total(a), total(b)
            return [Field(ta if ta == tb else None, "alt", alts=[a, b], test=norm(e.test))]
        if isinstance(e, ast.Call):
            nm = A.call_name(e)
            if nm in ("bytes", "bytearray") and len(e.args) == 1 and not e.keywords:
                n = self.fold(e.args[0])
                if isinstance(n, int):
                    return [Field(n, "zeros")]
                inner = self.expr(e.args[0])
                if not (len(inner) == 1 and inner[0].kind == "bytes" and inner[0].size is None):
                    return inner
                return [Field(None, "bytes", src=norm(e))]
            if nm == "to_bytes":
                f = e.func
                # int.to_bytes(x, length=n, byteorder=o)  |  x.to_bytes(n, o)
                if isinstance(f, ast.Attribute) and isinstance(f.value, ast.Name) and f.value.id == "int":
                    x = A.arg_of(e, 0)
                    n = A.arg_of(e, 1, "length")
                    o = A.arg_of(e, 2, "byteorder")
                else:
                    x = f.value  # type: ignore[union-attr]
                    n = A.arg_of(e, 0, "length")
                    o = A.arg_of(e, 1, "byteorder")
                size = self.fold(n) if n is not None else None
                return [Field(size if isinstance(size, int) else None, "int", src=self.src(x) if x is not None else "?", order=self.order(o) if o is not None else "big",
                              code=norm(n) if n is not None else "")]
            if nm == "join" and isinstance(e.func, ast.Attribute) and isinstance(e.func.value, ast.Constant) and e.func.value.value == b"" and len(e.args) == 1 \
                    and isinstance(e.args[0], (ast.Tuple, ast.List)):
                out: List[Field] = []
                for x in e.args[0].elts:
                    out += self.expr(x)
                return out
            if nm in ("pack", "pack_into") and e.args and not isinstance(self.fold(e.args[0]), str):
                # symbolic tail: f"<BBH{len(data)}B" with a starred payload, or f"...{n}s" with a bytes payload
                fe = A.inline_locals(self.fn, e.args[0]) if self.fn is not None else e.args[0]
                if isinstance(fe, ast.JoinedStr) and len(fe.values) >= 2 and isinstance(fe.values[-1], ast.Constant) and fe.values[-1].value in ("B", "s") \
                        and isinstance(fe.values[-2], ast.FormattedValue) and all(isinstance(v, ast.Constant) for v in fe.values[:-2]):
                    prefix = "".join(str(v.value) for v in fe.values[:-2])
                    items = [] if prefix in ("", "<", ">", "=", "!") else (struct_items(prefix) if prefix[0] in "<>=!" else None)
                    args = list(e.args[1:])
                    if items is not None and len(args) == len([i for i in items if i[0] != "x"]) + 1:
                        head = ast.Call(func=e.func, args=[ast.Constant(value=prefix)] + args[:-1], keywords=[])
                        ast.copy_location(head, e)
                        out = self.expr(head) if len(prefix) > 1 else []
                        last = args[-1]
                        payload = last.value if isinstance(last, ast.Starred) else last
                        if (fe.values[-1].value == "B") == isinstance(last, ast.Starred):
                            return out + [Field(None, "bytes", src=self.src(payload))]
            if nm in ("pack", "pack_into") and e.args:
                fmt = self.fold(e.args[0])
                if isinstance(fmt, str):
                    items = struct_items(fmt)
                    args = list(e.args[1:])
                    if items is not None and not any(isinstance(a, ast.Starred) for a in args):
                        out = []
                        ai = 0
                        bo = _ORDER.get(byte_order(fmt), "native")
                        for code, sz in items:
                            if code == "x":
                                out.append(Field(sz, "zeros"))
                                continue
                            if ai >= len(args):
                                return [Field(None, "bytes", src=norm(e))]
                            a = args[ai]
                            ai += 1
                            cv = self.fold(a)
                            if code in "sp":
                                if isinstance(cv, (bytes, bytearray)):
                                    out.append(Field(sz, "const", value=bytes(cv).ljust(sz, b"\0")[:sz]))
                                else:
                                    out.append(Field(sz, "bytes", src=self.src(a), code=code))
                            else:
                                if isinstance(cv, int) and not isinstance(cv, bool):
                                    out.append(Field(sz, "const", value=(cv % (1 << (8 * sz))).to_bytes(sz, "little" if bo == "little" else "big")))
                                else:
                                    out.append(Field(sz, "int", src=self.src(a), order=bo, code=code))
                        if ai == len(args):
                            return out
            return [Field(None, "bytes", src=self.src(e))]
        if isinstance(e, ast.BinOp) and isinstance(e.op, ast.Mult):
            n = self.fold(e.right)
            inner = self.expr(e.left)
            if isinstance(n, int) and total(inner) is not None:
                return inner * n
        if isinstance(e, ast.Subscript) and isinstance(e.slice, ast.Slice):
            lo = self.fold(e.slice.lower) if e.slice.lower is not None else 0
            hi = self.fold(e.slice.upper) if e.slice.upper is not None else None
            if isinstance(lo, int) and isinstance(hi, int) and 0 <= lo <= hi:
                return [Field(hi - lo, "bytes", src=self.src(e))]
        return [Field(None, "bytes", src=self.src(e))]

    def run(self, stmts: List[ast.stmt]) -> Optional[List[Field]]:
        """Straight-line interpretation; returns the layout of the first `return` reached at top level."""
        for st in stmts:
            if isinstance(st, (ast.Assign, ast.AnnAssign)) and st.value is not None:
                tgt = st.targets[0] if isinstance(st, ast.Assign) else st.target
                if isinstance(tgt, ast.Name):
                    lay = self.expr(st.value)
                    # only bind names that hold bytes layouts we understand; ints stay inlinable
                    if _understood(lay):
                        self.env[tgt.id] = lay
                    else:
                        self.env.pop(tgt.id, None)
            elif isinstance(st, ast.AugAssign) and isinstance(st.op, ast.Add) and isinstance(st.target, ast.Name):
                if st.target.id in self.env:
                    self.env[st.target.id] = self.env[st.target.id] + self.expr(st.value)
            elif isinstance(st, ast.If):
                # both branches extend the same accumulator -> alternative field
                before = {k: list(v) for k, v in self.env.items()}
                sub_a = Layout(self.fold, self.fn, self.order_of)
                sub_a.env = {k: list(v) for k, v in before.items()}
                ra = sub_a.run(st.body)
                sub_b = Layout(self.fold, self.fn, self.order_of)
                sub_b.env = {k: list(v) for k, v in before.items()}
                rb = sub_b.run(st.orelse)
                if A.always_raises(st.body):
                    self.env = sub_b.env
                    continue
                if st.orelse and A.always_raises(st.orelse):
                    self.env = sub_a.env
                    continue
                for k in set(sub_a.env) | set(sub_b.env):
                    a, b = sub_a.env.get(k), sub_b.env.get(k)
                    base = before.get(k, [])
                    if a is None or b is None:
                        self.env.pop(k, None)
                        continue
                    if [f.desc() for f in a] == [f.desc() for f in b]:
                        self.env[k] = a
                    elif len(a) >= len(base) and len(b) >= len(base) and [f.desc() for f in a[:len(base)]] == [f.desc() for f in base] == [f.desc() for f in b[:len(base)]]:
                        ea, eb = a[len(base):], b[len(base):]
                        ta, tb = total(ea), total(eb)
                        self.env[k] = base + [Field(ta if ta == tb else None, "alt", alts=[ea, eb], test=norm(st.test))]
                    else:
                        self.env.pop(k, None)
            elif isinstance(st, ast.Return) and st.value is not None:
                return self.expr(st.value)
        return None
