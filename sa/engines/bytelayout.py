"""ByteLayout - symbolic layout of bytes-building code.

Evaluates straight-line bytes construction (literals, bytes(n), int.to_bytes, struct.pack, +, +=,
conditional expressions) into a list of fields (size, kind, byte order, normalised source).
Anything outside the fragment yields an opaque field of unknown size - never a verdict by itself.
"""
from __future__ import annotations

import ast
from typing import Any, Callable, Dict, List, Optional

from ..core import astutil as A
from ..core.report import norm
from ..core.symtab import UNKNOWN, struct_items, byte_order


class Field:
    def __init__(self, size: Optional[int], kind: str, src: str = "", order: Optional[str] = None, value: Optional[bytes] = None,
                 alts: Optional[List[List["Field"]]] = None, test: str = "", code: str = ""):
        self.size, self.kind, self.src, self.order, self.value, self.alts, self.test, self.code = size, kind, src, order, value, alts, test, code
        self.opaque = False

    def desc(self) -> Any:
        if self.kind == "const":
            return (self.size, "const", self.value.hex() if self.value is not None else None)
        if self.kind == "zeros":
            return (self.size, "zeros")
        if self.kind == "int":
            return (self.size if self.size is not None or not self.code else self.code, "int", self.order, self.src)
        if self.kind == "alt":
            return (self.size, "alt", self.test, [[f.desc() for f in a] for a in (self.alts or [])])
        if self.kind == "repeat":
            return (None, "repeat", self.src)
        return (self.size, self.kind, self.src)

    def __repr__(self) -> str:
        return repr(self.desc())


def total(fields: List[Field]) -> Optional[int]:
    t = 0
    for f in fields:
        if f.size is None:
            return None
        t += f.size
    return t


def merge_consts(fields: List[Field]) -> List[Field]:
    """zeros and const neighbours are merged into one const field (layout-insensitive to how constants are spelled)."""
    out: List[Field] = []
    for f in fields:
        g = f
        if f.kind == "zeros" and f.size is not None:
            g = Field(f.size, "const", value=bytes(f.size))
        if out and out[-1].kind == "const" and g.kind == "const" and out[-1].value is not None and g.value is not None:
            out[-1] = Field(out[-1].size + g.size, "const", value=out[-1].value + g.value)
        else:
            out.append(g)
    return out


def _understood(lay: List[Field]) -> bool:
    if len(lay) >= 2:
        return True  # a concatenation of several parts is structure even when every part is an opaque call
    for f in lay:
        if f.kind in ("int", "const", "zeros"):
            return True
        if f.kind == "alt" and any(_understood(a) for a in (f.alts or [])):
            return True
        if f.kind == "bytes" and (f.size is not None or (f.src and not f.opaque)):
            return True
        if f.kind == "repeat":
            return True
    return False


class _Ren(ast.NodeTransformer):
    def __init__(self, names):
        self.names = set(names)

    def visit_Name(self, node):
        if node.id in self.names:
            return ast.copy_location(ast.Name(id="_", ctx=node.ctx), node)
        return node


def _target_names(t: ast.expr) -> List[str]:
    return [n.id for n in ast.walk(t) if isinstance(n, ast.Name)]


def repeat_src(elt: ast.expr, target: ast.expr, it: ast.expr, ifs: Optional[List[ast.expr]] = None) -> str:
    """Canonical text of `elt for target in it [if ..]` with the loop variable(s) abstracted."""
    import copy
    names = _target_names(target)
    e2 = _Ren(names).visit(copy.deepcopy(A.clone(elt)))
    txt = f"{norm(e2)} for _ in {norm(it)}"
    for c in ifs or []:
        txt += f" if {norm(_Ren(names).visit(copy.deepcopy(A.clone(c))))}"
    return txt


_ORDER = {"little": "little", "big": "big", "<": "little", ">": "big", "!": "big"}


class Layout:
    def __init__(self, fold: Callable[[ast.expr], Any], fn: Optional[ast.AST] = None, order_of: Optional[Callable[[ast.expr], Optional[str]]] = None):
        self.fold = fold
        self.fn = fn
        self.env: Dict[str, List[Field]] = {}
        self.pending: Dict[str, List[Field]] = {}
        self.order_of = order_of

    def order(self, e: Optional[ast.expr]) -> Optional[str]:
        if e is None:
            return None
        if self.order_of is not None:
            o = self.order_of(e)
            if o:
                return o
        v = self.fold(e)
        if isinstance(v, str) and v in _ORDER:
            return _ORDER[v]
        t = norm(e).lower()
        if "little" in t:
            return "little"
        if "big" in t:
            return "big"
        return f"?{norm(e)}"

    def src(self, e: ast.expr) -> str:
        if self.fn is not None:
            e = A.inline_locals(self.fn, e, keep=list(self.env))
        v = self.fold(e)
        if isinstance(v, int) and not isinstance(v, bool):
            return str(v)
        return norm(e)

    def expr(self, e: ast.expr) -> List[Field]:
        v = self.fold(e)
        if isinstance(v, (bytes, bytearray)):
            return [Field(len(v), "const", value=bytes(v))]
        if isinstance(e, ast.Name) and e.id in self.env:
            return list(self.env[e.id])
        if isinstance(e, ast.BinOp) and isinstance(e.op, ast.Add):
            return self.expr(e.left) + self.expr(e.right)
        if isinstance(e, ast.IfExp):
            a, b = self.expr(e.body), self.expr(e.orelse)
            ta, tb = total(a), total(b)
            return [Field(ta if ta == tb else None, "alt", alts=[a, b], test=norm(e.test))]
        if isinstance(e, ast.Call):
            nm = A.call_name(e)
            if nm in ("bytes", "bytearray") and not e.args and not e.keywords and isinstance(e.func, ast.Name):
                return [Field(0, "zeros")]
            if nm in ("bytes", "bytearray") and len(e.args) == 1 and not e.keywords:
                n = self.fold(e.args[0])
                if isinstance(n, int):
                    return [Field(n, "zeros")]
                inner = self.expr(e.args[0])
                if not (len(inner) == 1 and inner[0].kind == "bytes" and inner[0].size is None):
                    return inner
                return [Field(None, "bytes", src=norm(e))]
            if nm == "to_bytes":
                f = e.func
                # int.to_bytes(x, length=n, byteorder=o)  |  x.to_bytes(n, o)
                if isinstance(f, ast.Attribute) and isinstance(f.value, ast.Name) and f.value.id == "int":
                    x = A.arg_of(e, 0)
                    n = A.arg_of(e, 1, "length")
                    o = A.arg_of(e, 2, "byteorder")
                else:
                    x = f.value  # type: ignore[union-attr]
                    n = A.arg_of(e, 0, "length")
                    o = A.arg_of(e, 1, "byteorder")
                size = self.fold(n) if n is not None else None
                return [Field(size if isinstance(size, int) else None, "int", src=self.src(x) if x is not None else "?", order=self.order(o) if o is not None else "big",
                              code=self.src(n) if n is not None else "")]
            if nm == "join" and isinstance(e.func, ast.Attribute) and isinstance(e.func.value, ast.Constant) and e.func.value.value == b"" and len(e.args) == 1:
                return self.chunks(e.args[0])
            if nm in ("pack", "pack_into") and e.args and not isinstance(self.fold(e.args[0]), str):
                # symbolic tail: f"<BBH{len(data)}B" with a starred payload, or f"...{n}s" with a bytes payload
                fe = A.inline_locals(self.fn, e.args[0]) if self.fn is not None else e.args[0]
                if isinstance(fe, ast.JoinedStr) and len(fe.values) >= 2 and isinstance(fe.values[-1], ast.Constant) and fe.values[-1].value in ("B", "s") \
                        and isinstance(fe.values[-2], ast.FormattedValue) and all(isinstance(v, ast.Constant) for v in fe.values[:-2]):
                    prefix = "".join(str(v.value) for v in fe.values[:-2])
                    items = [] if prefix in ("", "<", ">", "=", "!") else (struct_items(prefix) if prefix[0] in "<>=!" else None)
                    args = list(e.args[1:])
                    if items is not None and len(args) == len([i for i in items if i[0] != "x"]) + 1:
                        head = ast.Call(func=e.func, args=[ast.Constant(value=prefix)] + args[:-1], keywords=[])
                        ast.copy_location(head, e)
                        out = self.expr(head) if len(prefix) > 1 else []
                        last = args[-1]
                        payload = last.value if isinstance(last, ast.Starred) else last
                        if (fe.values[-1].value == "B") == isinstance(last, ast.Starred):
                            return out + [Field(None, "bytes", src=self.src(payload))]
            if nm in ("pack", "pack_into") and e.args:
                fmt = self.fold(e.args[0])
                if isinstance(fmt, str):
                    items = struct_items(fmt)
                    args = []
                    for a in e.args[1:]:
                        if isinstance(a, ast.Starred) and isinstance(a.value, (ast.List, ast.Tuple)):
                            args += list(a.value.elts)
                        else:
                            args.append(a)
                    if items is not None and not any(isinstance(a, ast.Starred) for a in args):
                        out = []
                        ai = 0
                        bo = _ORDER.get(byte_order(fmt), "native")
                        for code, sz in items:
                            if code == "x":
                                out.append(Field(sz, "zeros"))
                                continue
                            if ai >= len(args):
                                return [Field(None, "bytes", src=norm(e))]
                            a = args[ai]
                            ai += 1
                            cv = self.fold(a)
                            if code in "sp":
                                if isinstance(cv, (bytes, bytearray)):
                                    out.append(Field(sz, "const", value=bytes(cv).ljust(sz, b"\0")[:sz]))
                                else:
                                    out.append(Field(sz, "bytes", src=self.src(a), code=code))
                            else:
                                if isinstance(cv, int) and not isinstance(cv, bool):
                                    out.append(Field(sz, "const", value=(cv % (1 << (8 * sz))).to_bytes(sz, "little" if bo == "little" else "big")))
                                else:
                                    out.append(Field(sz, "int", src=self.src(a), order=bo, code=code))
                        if ai == len(args):
                            return out
            return [self._opaque(e)]
        if isinstance(e, ast.BinOp) and isinstance(e.op, ast.Mult):
            n = self.fold(e.right)
            inner = self.expr(e.left)
            if isinstance(n, int) and total(inner) is not None:
                return inner * n
        if isinstance(e, ast.Subscript) and isinstance(e.slice, ast.Slice):
            lo = self.fold(e.slice.lower) if e.slice.lower is not None else 0
            hi = self.fold(e.slice.upper) if e.slice.upper is not None else None
            if isinstance(lo, int) and isinstance(hi, int) and 0 <= lo <= hi:
                return [Field(hi - lo, "bytes", src=self.src(e))]
        return [self._opaque(e)]

    def _opaque(self, e: ast.expr) -> Field:
        f = Field(None, "bytes", src=self.src(e))
        f.opaque = True
        return f

    def _promote(self, name: str) -> bool:
        """An opaque value becomes an accumulator the moment something is appended to it."""
        if name not in self.env and name in self.pending:
            self.env[name] = self.pending.pop(name)
        return name in self.env

    def chunks(self, e: ast.expr) -> List[Field]:
        """Layout of the concatenation of an iterable of bytes values."""
        if isinstance(e, (ast.Tuple, ast.List)):
            out: List[Field] = []
            for x in e.elts:
                out += self.expr(x)
            return out
        if isinstance(e, (ast.GeneratorExp, ast.ListComp)) and len(e.generators) == 1:
            g = e.generators[0]
            return [Field(None, "repeat", src=repeat_src(e.elt, g.target, g.iter, g.ifs))]
        if isinstance(e, ast.Name) and e.id in self.env:
            return list(self.env[e.id])
        if isinstance(e, ast.BinOp) and isinstance(e.op, ast.Add):
            # list concatenation: [a] + [f(x) for x in xs]
            return self.chunks(e.left) + self.chunks(e.right)
        if isinstance(e, ast.Call) and isinstance(e.func, ast.Name) and e.func.id in ("list", "tuple") and len(e.args) == 1 and not e.keywords:
            return self.chunks(e.args[0])
        return [Field(None, "bytes", src=f"join({self.src(e)})")]

    def run(self, stmts: List[ast.stmt]) -> Optional[List[Field]]:
        """Straight-line interpretation; returns the layout of the first `return` reached at top level."""
        for st in stmts:
            # chunk lists: xs = [a, b] / xs.append(e) / xs.extend(iterable);  bytearray: buf.extend(e) / buf += e
            if isinstance(st, ast.Assign) and len(st.targets) == 1 and isinstance(st.targets[0], ast.Name) and isinstance(st.value, (ast.List, ast.Tuple)) \
                    and (not st.value.elts or True):
                self.env[st.targets[0].id] = self.chunks(st.value)
                continue
            if isinstance(st, ast.Expr) and isinstance(st.value, ast.Call) and isinstance(st.value.func, ast.Attribute) and isinstance(st.value.func.value, ast.Name) \
                    and st.value.func.attr in ("append", "extend") and len(st.value.args) == 1 and self._promote(st.value.func.value.id):
                a = st.value.args[0]
                if st.value.func.attr == "append":
                    self.env[st.value.func.value.id] = self.env[st.value.func.value.id] + self.expr(a)
                elif isinstance(a, (ast.GeneratorExp, ast.ListComp, ast.List, ast.Tuple)):
                    self.env[st.value.func.value.id] = self.env[st.value.func.value.id] + self.chunks(a)
                else:
                    self.env[st.value.func.value.id] = self.env[st.value.func.value.id] + self.expr(a)
                continue
            if isinstance(st, ast.For) and not st.orelse:
                # for v in seq: acc += f(v) [; acc += g(v) ...]  (temporaries and asserts allowed)  ->  one repeat field
                body = [b for b in st.body if not (isinstance(b, ast.Expr) and isinstance(b.value, ast.Constant)) and not isinstance(b, ast.Assert)]
                tmp: Dict[str, ast.expr] = {}
                ok = True
                acc, vals = None, []
                for b in body:
                    a2, v2 = None, None
                    if isinstance(b, ast.Assign) and len(b.targets) == 1 and isinstance(b.targets[0], ast.Name):
                        tmp[b.targets[0].id] = A.subst(b.value, tmp) if tmp else b.value
                        continue
                    if isinstance(b, ast.AugAssign) and isinstance(b.op, ast.Add) and isinstance(b.target, ast.Name):
                        a2, v2 = b.target.id, b.value
                    elif isinstance(b, ast.Expr) and isinstance(b.value, ast.Call) and isinstance(b.value.func, ast.Attribute) and b.value.func.attr in ("append", "extend") \
                            and isinstance(b.value.func.value, ast.Name) and len(b.value.args) == 1:
                        a2, v2 = b.value.func.value.id, b.value.args[0]
                    if a2 is None or (acc is not None and a2 != acc):
                        ok = False
                        break
                    acc = a2
                    vals.append(A.subst(v2, tmp) if tmp else v2)
                val = None
                if ok and vals:
                    val = vals[0]
                    for v3 in vals[1:]:
                        val = ast.BinOp(left=val, op=ast.Add(), right=v3)
                if ok and acc is not None and val is not None and self._promote(acc):
                    self.env[acc] = self.env[acc] + [Field(None, "repeat", src=repeat_src(val, st.target, st.iter))]
                    continue
            if isinstance(st, (ast.Assign, ast.AnnAssign)) and st.value is not None:
                tgt = st.targets[0] if isinstance(st, ast.Assign) else st.target
                if isinstance(tgt, ast.Name):
                    lay = self.expr(st.value)
                    # only bind names that hold bytes layouts we understand; ints stay inlinable
                    if _understood(lay):
                        self.env[tgt.id] = lay
                    else:
                        self.env.pop(tgt.id, None)
                        if len(lay) == 1 and lay[0].kind == "bytes" and lay[0].opaque:
                            self.pending[tgt.id] = lay
            elif isinstance(st, ast.AugAssign) and isinstance(st.op, ast.Add) and isinstance(st.target, ast.Name):
                if self._promote(st.target.id):
                    self.env[st.target.id] = self.env[st.target.id] + self.expr(st.value)
            elif isinstance(st, ast.If):
                # both branches extend the same accumulator -> alternative field
                before = {k: list(v) for k, v in self.env.items()}
                sub_a = Layout(self.fold, self.fn, self.order_of)
                sub_a.env = {k: list(v) for k, v in before.items()}
                sub_a.pending = dict(self.pending)
                ra = sub_a.run(st.body)
                sub_b = Layout(self.fold, self.fn, self.order_of)
                sub_b.env = {k: list(v) for k, v in before.items()}
                sub_b.pending = dict(self.pending)
                rb = sub_b.run(st.orelse)
                if A.always_raises(st.body):
                    self.env = sub_b.env
                    continue
                if st.orelse and A.always_raises(st.orelse):
                    self.env = sub_a.env
                    continue
                for k in set(sub_a.env) | set(sub_b.env):
                    a, b = sub_a.env.get(k), sub_b.env.get(k)
                    base = before.get(k, [])
                    if a is None or b is None:
                        self.env.pop(k, None)
                        continue
                    if [f.desc() for f in a] == [f.desc() for f in b]:
                        self.env[k] = a
                    elif len(a) >= len(base) and len(b) >= len(base) and [f.desc() for f in a[:len(base)]] == [f.desc() for f in base] == [f.desc() for f in b[:len(base)]]:
                        ea, eb = a[len(base):], b[len(base):]
                        ta, tb = total(ea), total(eb)
                        self.env[k] = base + [Field(ta if ta == tb else None, "alt", alts=[ea, eb], test=norm(st.test))]
                    else:
                        self.env.pop(k, None)
            elif isinstance(st, ast.Return) and st.value is not None:
                return self.expr(st.value)
        return None


def normal_form(fold: Callable[[ast.expr], Any], fn_node: ast.AST, expr: Optional[ast.expr] = None) -> Optional[List[Any]]:
    """Canonical field list of what `fn_node` returns (or of `expr` evaluated after the function's statements): independent of how
    the bytes are assembled (one pack / several packs / += chain / join / bytearray / chunk list / loop vs comprehension)."""
    L = Layout(fold, fn_node)
    body = [s for i, s in enumerate(fn_node.body) if not (i == 0 and isinstance(s, ast.Expr) and isinstance(s.value, ast.Constant))]  # type: ignore[attr-defined]
    res = L.run(body)
    if expr is not None:
        res = L.expr(expr)
    if res is None:
        return None
    out = []
    for f in merge_consts(res):
        if f.kind in ("const", "zeros") and f.size == 0:
            continue
        out.append(f.desc())
    return out
