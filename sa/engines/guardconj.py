"""Guard conjunction: a raising validity guard whose test is an `and` of inequalities on DIFFERENT subjects rejects only
inputs that are wrong in every respect at once ("invalid a or b" written as `a != X and b != Y`). Same-subject conjunctions
(`x != a and x != b`) are set-membership tests and are fine. Exceptions are frozen with a reason."""
from __future__ import annotations

import ast
from typing import Iterable, Optional

from ..core import astutil as A
from ..core import callgraph as CG
from ..core.report import norm

EXCEPTIONS = {
    "spsdk/dat/dac_packet.py::DebugAuthenticationChallenge.validate_against_dc|self.uuid != dc.uuid and dc.uuid != bytes(len(dc.uuid))":
        "a mismatch is an error only when the credential is not a wildcard (all-zero UUID): a genuine conjunction",
}


def _subject(c: ast.expr) -> Optional[str]:
    if isinstance(c, ast.Compare) and len(c.ops) == 1 and isinstance(c.ops[0], (ast.NotEq, ast.NotIn)):
        return norm(c.left)
    return None


def check(ctx, rule: str, modules: Iterable[str]) -> int:
    prog, chk = ctx.prog, ctx.chk
    mods = set(modules)
    n = 0
    for fn in CG.all_functions(prog):
        if fn.module.relpath not in mods:
            continue
        for st in A.walk_no_nested(fn.node):
            if not (isinstance(st, ast.If) and A.always_raises(st.body)):
                continue
            n += 1
            t = st.test
            if not (isinstance(t, ast.BoolOp) and isinstance(t.op, ast.And)):
                continue
            subs = [_subject(v) for v in t.values]
            if not all(subs) or len(set(subs)) < 2:
                continue
            key = f"{fn.qual}|{norm(t)}"
            if key in EXCEPTIONS:
                chk.report(f"{rule} exception {fn.qual}: {EXCEPTIONS[key]}")
                continue
            chk.bad(rule, fn.qual, f"`if {norm(t)[:120]}: raise` rejects only inputs where {' and '.join(subs)} are all wrong at once",
                    "independent validity conditions are combined with `or`", A.loc(fn.module.relpath, st))
    # embedded positive example
    ex = ast.parse("def f(a, b):\n    if len(a) != 4 and len(b) != 8:\n        raise ValueError('invalid a or b')\n").body[0].body[0]
    assert isinstance(ex.test, ast.BoolOp) and len({_subject(v) for v in ex.test.values}) == 2
    return n
