"""Dynamic attribute protocol: consumers that test `hasattr(obj, "<name>")` rely on the attribute being ABSENT for the
negative case; every producer `setattr(obj, "<name>", v)` must therefore set it only on the positive path, to a true constant."""
from __future__ import annotations

import ast
from typing import List

from ..core import astutil as A
from ..core import callgraph as CG
from ..core.loader import AnalysisError
from ..core.report import norm


def check(ctx, rule: str, attr: str, min_consumers: int = 1, min_producers: int = 1) -> None:
    prog, chk = ctx.prog, ctx.chk
    consumers, producers = [], []
    for fn in CG.all_functions(prog):
        for c in [x for x in ast.walk(fn.node) if isinstance(x, ast.Call) and isinstance(x.func, ast.Name)]:
            if c.func.id == "hasattr" and len(c.args) == 2 and isinstance(c.args[1], ast.Constant) and c.args[1].value == attr:
                consumers.append((fn, c))
            if c.func.id == "setattr" and len(c.args) == 3 and isinstance(c.args[1], ast.Constant) and c.args[1].value == attr:
                producers.append((fn, c))
    if len(consumers) < min_consumers or len(producers) < min_producers:
        raise AnalysisError(f"{rule}: attribute protocol `{attr}` has {len(consumers)} hasattr consumers / {len(producers)} setattr producers (expected >= {min_consumers}/{min_producers})")
    for fn, c in producers:
        guards = [norm(a.test) for a in A.ancestors(c) if isinstance(a, ast.If)]
        in_body = any(isinstance(a, ast.If) and any(c is x for s in a.body for x in ast.walk(s)) for a in A.ancestors(c))
        val = c.args[2]
        ok = isinstance(val, ast.Constant) and val.value is True and in_body and any(attr in g.split(".")[-1] or g.endswith("." + attr) or f".{attr}" in g for g in guards)
        # the mark goes on the object that is handed on (the key), not back on the source the guard read it from: `if cert.ca: setattr(cert, ..)`
        # marks nothing the consumers see (and raises when the source exposes `ca` as a read-only property)
        tgt = norm(c.args[0])
        on_source = any(g in (f"{tgt}.{attr}", f"{tgt}.{attr} is True", f"bool({tgt}.{attr})") for g in guards)
        chk.decide(not on_source, rule, f"{fn.qual} setattr target", f"the mark is attached to the object handed on, not to the source `{tgt}` the guard reads",
                   f"`{norm(c)}` under `if {tgt}.{attr}`: the attribute is written back to the object it was read from; the object returned to the consumers stays unmarked", f"setattr(<returned key>, '{attr}', True)", A.loc(fn.module.relpath, c))
        chk.decide(ok, rule, f"{fn.qual} setattr(.., '{attr}', ..)", f"`{attr}` is attached only when the source says so (guards {guards}), as the constant True - {len(consumers)} consumers test its mere presence with hasattr",
                   f"`{norm(c)}` under guards {guards}: consumers use hasattr(.., '{attr}'), so attaching the attribute with a false value (or unconditionally) flips their decision", f"if <source>.{attr}: setattr(key, '{attr}', True)", A.loc(fn.module.relpath, c))
