"""E5 OrderEnum - comparison-only predicates decided on order types.

A guard whose integer inputs occur only in comparisons between affine terms (x, x+c, folded
constants) has a truth value that depends only on the order type of those terms. Every order
type of n terms with constants bounded by c is realised inside a small integer grid, so
evaluating the guard's *syntax tree* with the tiny evaluator below on that grid and comparing
with a reference predicate decides the guard for all integers. The evaluator understands only
If / Raise / Return / Assert / Assign(affine) / Compare / BoolOp / Not / +,- and gives up
(Unsupported) on anything else: leaving the fragment is never a verdict.
"""
from __future__ import annotations

import ast
import itertools
from typing import Any, Callable, Dict, Iterable, List, Optional, Tuple


class Unsupported(Exception):
    def __init__(self, node: ast.AST, why: str = ""):
        super().__init__(f"{type(node).__name__}: {ast.unparse(node)[:80]} {why}")
        self.node = node


class Obj:
    """A record with attributes (identity equality) for evaluating guards over small object graphs."""
    def __init__(self, **kw: Any):
        self.__dict__.update(kw)

    def __len__(self) -> int:
        return self.__dict__["len"]

    def __bool__(self) -> bool:
        return True

    def __repr__(self) -> str:
        return "Obj(" + ", ".join(f"{k}={v!r}" for k, v in self.__dict__.items() if not isinstance(v, (Obj, tuple))) + ")"


class EnumMember(Obj):
    """Model of one member of an SpsdkEnum class: tag / label / description / name; identity equality, and - like SpsdkEnum -
    equal to its own tag and label."""
    def __eq__(self, other: Any) -> bool:
        if isinstance(other, EnumMember):
            return self is other
        if isinstance(other, bool):
            return False
        if isinstance(other, int):
            return self.__dict__["tag"] == other
        if isinstance(other, str):
            return self.__dict__["label"] == other
        return False

    def __ne__(self, other: Any) -> bool:
        return not self.__eq__(other)

    def __hash__(self) -> int:
        return id(self)

    def __repr__(self) -> str:
        return f"<{self.__dict__.get('_enum')}.{self.__dict__.get('name')}>"


class EnumModel(Obj):
    """Model of an SpsdkEnum class: its members in definition order."""
    def members(self) -> tuple:
        return self.__dict__["_members"]

    def __contains__(self, x: Any) -> bool:
        return any(m is x for m in self.members()) or (isinstance(x, int) and not isinstance(x, bool) and any(m.tag == x for m in self.members()))

    def __iter__(self):
        return iter(self.members())

    def __len__(self) -> int:
        return len(self.members())


class Outcome:
    def __init__(self, kind: str, value: Any = None, node: Optional[ast.AST] = None):
        self.kind = kind  # 'raise' | 'return' | 'fall' | 'continue' | 'break'
        self.value = value
        self.node = node

    def __repr__(self) -> str:
        return f"{self.kind}:{self.value!r}"

    def sig(self) -> Tuple[str, Any]:
        return (self.kind, self.value if isinstance(self.value, (bool, int, type(None))) else "<expr>")


class _Closure(dict):
    """Environment of a local function call: own frame first, reads and writes of free names go to the enclosing environment."""
    def __init__(self, outer, frame):
        super().__init__(frame)
        self.outer = outer

    def __contains__(self, k):
        return dict.__contains__(self, k) or k in self.outer

    def __getitem__(self, k):
        return dict.__getitem__(self, k) if dict.__contains__(self, k) else self.outer[k]

    def get(self, k, d=None):
        return self[k] if k in self else d


class View:
    """Model of a memoryview over a bytearray (or bytes): slicing gives a view on the same buffer, slice assignment writes through
    and - like the real memoryview - refuses a value of another length."""
    def __init__(self, base, lo: int = 0, hi: Optional[int] = None):
        self.base = base
        n = len(base)
        self.lo, self.hi = lo, n if hi is None else hi

    def __len__(self) -> int:
        return max(0, self.hi - self.lo)

    def tobytes(self) -> bytes:
        return bytes(self.base[self.lo:self.hi])

    def sub(self, lo, hi) -> "View":
        a, b, _ = slice(lo, hi).indices(len(self))
        return View(self.base, self.lo + a, self.lo + max(a, b))

    def store(self, lo, hi, val) -> bool:
        v = self.sub(lo, hi)
        data = val.tobytes() if isinstance(val, View) else bytes(val)
        if len(data) != len(v) or not isinstance(self.base, bytearray):
            return False  # ValueError / TypeError in the real object
        self.base[v.lo:v.hi] = data
        return True


import operator as _operator  # noqa: E402

_OPERATOR_FUNCS = {n: getattr(_operator, n) for n in ("add", "sub", "mul", "floordiv", "truediv", "mod", "lshift", "rshift", "and_", "or_", "xor", "lt", "le", "gt", "ge", "eq", "ne",
                                                       "neg", "pos", "not_", "invert", "truth", "pow")}


class LocalFunc:
    """A function defined inside the evaluated body: called with the defining evaluator's environment as its closure."""
    def __init__(self, node: ast.FunctionDef, owner: "Evaluator"):
        self.node, self.owner = node, owner


class BoundRef:
    """`obj.method` taken as a value (stored in a table, passed on) and called later."""
    def __init__(self, obj, attr: str):
        self.obj, self.attr = obj, attr


class ModelRaise(Exception):
    """A modelled callee raised: the calling statement raises too."""
    def __init__(self, outcome):
        node = getattr(outcome, "node", None)
        where = ""
        if node is not None:
            try:
                where = f" at line {getattr(node, 'lineno', '?')}: {ast.unparse(node)[:90]}"
            except Exception:  # noqa: BLE001
                where = ""
        super().__init__("callee raises" + where)
        self.outcome = outcome


SymFn = Callable[[ast.expr], Any]
NOT_MODELLED = object()


class Evaluator:
    def __init__(self, env: Dict[str, Any], sym: Optional[SymFn] = None, opaque_return: bool = True, ignore_calls: Iterable[str] = (),
                 call_hook: Optional[Callable[[ast.Call, "Evaluator"], bool]] = None,
                 call_value: Optional[Callable[[ast.Call, "Evaluator"], Any]] = None):
        self.call_hook = call_hook
        self.call_value = call_value  # models a call inside an expression: returns NOT_MODELLED when it does not know the callee
        self._init(env, sym, opaque_return, ignore_calls)

    def _init(self, env: Dict[str, Any], sym: Optional[SymFn], opaque_return: bool, ignore_calls: Iterable[str]) -> None:
        self.env = dict(env)
        self.sym = sym
        self.opaque_return = opaque_return
        self.ignore_calls = set(ignore_calls)

    # ------------------------------------------------------------- expressions
    def ev(self, e: ast.expr) -> Any:
        if isinstance(e, ast.Attribute) and isinstance(e.value, ast.Name) and isinstance(self.env.get(e.value.id), Obj) and "_cls" in self.env[e.value.id].__dict__ \
                and ast.unparse(e) not in self.env:
            # an attribute of a class-tagged model object is looked up on the object and its own class first (dynamic dispatch); only
            # then is the name folded in the context of the class whose method happens to be evaluated
            base0 = self.env[e.value.id]
            if e.attr in base0.__dict__:
                return base0.__dict__[e.attr]
            hook0 = getattr(self, "call_value", None)
            if hook0 is not None:
                v0 = hook0(ast.copy_location(ast.Call(func=e, args=[], keywords=[]), e), self)
                if v0 is not NOT_MODELLED:
                    return v0
        if self.sym is not None:
            v = self.sym(e)
            if v is not None:
                return v
        if isinstance(e, ast.Constant):
            if isinstance(e.value, (int, bool, str, bytes)) or e.value is None:
                return e.value
            raise Unsupported(e)
        if isinstance(e, ast.Call) and getattr(self, "call_value", None) is not None:
            v = self.call_value(e, self)
            if v is not NOT_MODELLED:
                return v
        if isinstance(e, ast.Call) and isinstance(e.func, ast.Name) and isinstance(self.env.get(e.func.id), LocalFunc):
            lf = self.env[e.func.id]
            a = lf.node.args
            params = [x.arg for x in a.args]
            if a.vararg or a.kwarg or len(e.args) > len(params):
                raise Unsupported(e)
            frame = {}
            for n_, x in zip(params, e.args):
                frame[n_] = self.ev(x)
            for k in e.keywords:
                if k.arg not in params + [x.arg for x in a.kwonlyargs]:
                    raise Unsupported(e)
                frame[k.arg] = self.ev(k.value)
            defaults = dict(zip(params[len(params) - len(a.defaults):], a.defaults))
            for n_ in params:
                if n_ not in frame:
                    if n_ not in defaults:
                        raise Unsupported(e)
                    frame[n_] = lf.owner.ev(defaults[n_])
            if getattr(self, "_depth", 0) > 40:
                raise Unsupported(e, "recursion too deep on the model")
            sub = Evaluator.__new__(Evaluator)
            sub.__dict__.update(self.__dict__)
            sub._depth = getattr(self, "_depth", 0) + 1
            sub.env = _Closure(lf.owner.env, frame)
            out = sub.run([s for s in lf.node.body])
            if out.kind == "raise":
                raise ModelRaise(out)
            return out.value if out.kind == "return" else None
        if isinstance(e, ast.Call) and isinstance(e.func, ast.Attribute) and e.func.attr in ("decode", "encode", "ljust", "rjust", "zfill", "rstrip", "lstrip", "strip", "hex") \
                and len(e.args) <= 2 and all(k.arg in ("encoding", "errors") for k in e.keywords) and (e.args or e.keywords):
            # text / bytes methods with arguments on modelled values
            try:
                v = self.ev(e.func.value)
            except Unsupported:
                v = None
            if isinstance(v, (str, bytes, bytearray)) and hasattr(v, e.func.attr):
                try:
                    return getattr(bytes(v) if isinstance(v, bytearray) else v, e.func.attr)(*[self.ev(a) for a in e.args], **{k.arg: self.ev(k.value) for k in e.keywords})
                except (UnicodeError, LookupError):
                    raise ModelRaise(Outcome("raise", "UnicodeError", e))
                except (TypeError, ValueError):
                    raise Unsupported(e)
        if isinstance(e, ast.Call) and isinstance(e.func, ast.Attribute) and e.func.attr in ("split", "startswith", "endswith", "replace") and 1 <= len(e.args) <= 2 and not e.keywords:
            try:
                v = self.ev(e.func.value)
            except Unsupported:
                v = None
            if isinstance(v, (str, bytes)):
                r = getattr(v, e.func.attr)(*[self.ev(a) for a in e.args])
                return tuple(r) if isinstance(r, list) else r
        if isinstance(e, ast.JoinedStr):
            # f-string over modelled ints / strings / bytes (format specs may nest fields)
            out_s = ""
            for part in e.values:
                if isinstance(part, ast.Constant):
                    out_s += str(part.value)
                    continue
                v = self.ev(part.value)
                if isinstance(v, bool) or not isinstance(v, (int, str)):
                    raise Unsupported(e)
                if part.conversion not in (-1, 115):
                    raise Unsupported(e)
                spec = self.ev(part.format_spec) if part.format_spec is not None else ""
                try:
                    out_s += format(str(v) if part.conversion == 115 else v, spec)
                except (ValueError, TypeError):
                    raise ModelRaise(Outcome("raise", "ValueError", e))
            return out_s
        if isinstance(e, ast.Call) and isinstance(e.func, ast.Attribute) and e.func.attr == "format" and isinstance(e.func.value, ast.Constant) and isinstance(e.func.value.value, str):
            args = [self.ev(a) for a in e.args]
            kw = {k.arg: self.ev(k.value) for k in e.keywords if k.arg}
            if len(kw) != len(e.keywords) or any(isinstance(v, bool) or not isinstance(v, (int, str)) for v in args + list(kw.values())):
                raise Unsupported(e)
            try:
                return e.func.value.value.format(*args, **kw)
            except (ValueError, TypeError, IndexError, KeyError):
                raise ModelRaise(Outcome("raise", "ValueError", e))
        if isinstance(e, ast.Call) and isinstance(e.func, ast.Attribute) and e.func.attr in ("upper", "lower", "strip", "lstrip", "rstrip", "hex", "encode", "decode") and not e.args and not e.keywords:
            try:
                v = self.ev(e.func.value)
            except Unsupported:
                v = None
            if isinstance(v, (str, bytes)) and hasattr(v, e.func.attr):
                return getattr(v, e.func.attr)()
        if isinstance(e, ast.Subscript):
            base = self.ev(e.value)
            if isinstance(base, View) and isinstance(e.slice, ast.Slice) and e.slice.step is None:
                return base.sub(self.ev(e.slice.lower) if e.slice.lower is not None else None, self.ev(e.slice.upper) if e.slice.upper is not None else None)
            if isinstance(base, Obj) and "_items" in base.__dict__ and not isinstance(e.slice, ast.Slice):
                try:
                    return base.__dict__["_items"][self.ev(e.slice)]
                except (IndexError, TypeError, KeyError):
                    raise ModelRaise(Outcome("raise", "IndexError", e))
            if isinstance(base, dict) and not isinstance(e.slice, ast.Slice):
                k = self.ev(e.slice)
                if k in base:
                    return base[k]
                raise ModelRaise(Outcome("raise", "KeyError", e))
            if isinstance(base, (tuple, str, bytes, bytearray)):
                if isinstance(e.slice, ast.Slice):
                    lo = self.ev(e.slice.lower) if e.slice.lower is not None else None
                    hi = self.ev(e.slice.upper) if e.slice.upper is not None else None
                    st_ = self.ev(e.slice.step) if e.slice.step is not None else None
                    return base[lo:hi:st_]
                i = self.ev(e.slice)
                try:
                    return base[i]
                except Exception:
                    raise Unsupported(e)
            raise Unsupported(e)
        if isinstance(e, ast.Name):
            if e.id in self.env:
                return self.env[e.id]
            raise Unsupported(e, "unbound")
        if isinstance(e, ast.Attribute) and isinstance(e.value, ast.Name) and e.value.id == "operator" and "operator" not in self.env and e.attr in _OPERATOR_FUNCS:
            return _OPERATOR_FUNCS[e.attr]
        if isinstance(e, ast.Attribute):
            k = ast.unparse(e)
            if k in self.env:
                return self.env[k]
            try:
                base = self.ev(e.value)
            except Unsupported:
                raise Unsupported(e, "unbound attribute")
            if isinstance(base, Obj) and e.attr in base.__dict__:
                return base.__dict__[e.attr]
            if isinstance(base, Obj) and "_cls" in base.__dict__ and getattr(self, "call_value", None) is not None:
                # a property of a class-tagged model object is evaluated like a method call without arguments
                fake = ast.Call(func=e, args=[], keywords=[])
                v = self.call_value(ast.copy_location(fake, e), self)
                if v is not NOT_MODELLED:
                    return v
            if isinstance(base, Obj) and isinstance(e.ctx, ast.Load):
                return BoundRef(base, e.attr)
            raise Unsupported(e, "unbound attribute")
        if isinstance(e, ast.DictComp) and len(e.generators) == 1:
            g = e.generators[0]
            seq = self.ev(g.iter)
            if isinstance(seq, dict):
                seq = tuple(seq)
            if not isinstance(seq, (tuple, range)):
                raise Unsupported(e)
            names = [g.target.id] if isinstance(g.target, ast.Name) else [x.id for x in g.target.elts] if isinstance(g.target, ast.Tuple) and all(isinstance(x, ast.Name) for x in g.target.elts) else None
            if names is None:
                raise Unsupported(e)
            saved = {n: self.env[n] for n in names if n in self.env}
            out_d = {}
            for item in seq:
                if isinstance(g.target, ast.Name):
                    self.env[names[0]] = item
                else:
                    for n, v in zip(names, item):
                        self.env[n] = v
                if all(self.ev(c) for c in g.ifs):
                    out_d[self.ev(e.key)] = self.ev(e.value)
            for n in names:
                self.env.pop(n, None)
            self.env.update(saved)
            return out_d
        if isinstance(e, ast.Lambda) and not (e.args.vararg or e.args.kwarg):
            fake = ast.FunctionDef(name="<lambda>", args=e.args, body=[ast.copy_location(ast.Return(value=e.body), e)], decorator_list=[], returns=None)
            ast.copy_location(fake, e)
            return LocalFunc(fake, self)
        if isinstance(e, ast.Dict) and all(k is not None for k in e.keys):
            try:
                return {self.ev(k): self.ev(v) for k, v in zip(e.keys, e.values)}
            except TypeError:
                raise Unsupported(e)
        if isinstance(e, ast.Call) and isinstance(e.func, ast.Attribute) and e.func.attr in ("keys", "values", "items") and not e.args and not e.keywords:
            try:
                dv = self.ev(e.func.value)
            except Unsupported:
                dv = None
            if isinstance(dv, dict):
                return tuple(getattr(dv, e.func.attr)())
        if isinstance(e, ast.Call) and isinstance(e.func, ast.Attribute) and e.func.attr == "get" and 1 <= len(e.args) <= 2 and not e.keywords:
            try:
                dv = self.ev(e.func.value)
            except Unsupported:
                dv = None
            if isinstance(dv, dict):
                k = self.ev(e.args[0])
                return dv[k] if k in dv else (self.ev(e.args[1]) if len(e.args) == 2 else None)
        if isinstance(e, ast.Call) and not isinstance(e.func, (ast.Name, ast.Attribute)) or (isinstance(e, ast.Call) and isinstance(e.func, ast.Name) and (isinstance(self.env.get(e.func.id), BoundRef) or (e.func.id in self.env and self.env[e.func.id] in _OPERATOR_FUNCS.values()))):
            # calling a value: a bound method reference taken earlier (table dispatch)
            fv = self.ev(e.func)
            if fv in _OPERATOR_FUNCS.values() and not e.keywords:
                try:
                    return fv(*[self.ev(a) for a in e.args])
                except ZeroDivisionError:
                    raise ModelRaise(Outcome("raise", "ZeroDivisionError", e))
                except (TypeError, ValueError):
                    raise Unsupported(e)
            if isinstance(fv, LocalFunc):
                self.env["__fn__"] = fv
                fake = ast.copy_location(ast.Call(func=ast.Name(id="__fn__", ctx=ast.Load()), args=e.args, keywords=e.keywords), e)
                ast.fix_missing_locations(fake)
                try:
                    return self.ev(fake)
                finally:
                    self.env.pop("__fn__", None)
            if isinstance(fv, BoundRef):
                self.env["__recv__"] = fv.obj
                fake = ast.copy_location(ast.Call(func=ast.Attribute(value=ast.Name(id="__recv__", ctx=ast.Load()), attr=fv.attr, ctx=ast.Load()), args=e.args, keywords=e.keywords), e)
                ast.fix_missing_locations(fake)
                try:
                    return self.ev(fake)
                finally:
                    self.env.pop("__recv__", None)
            raise Unsupported(e)
        if isinstance(e, ast.Call) and isinstance(e.func, ast.Name) and e.func.id in ("hasattr", "getattr") and e.func.id not in self.env and 2 <= len(e.args) <= 3 and not e.keywords:
            # hasattr / getattr on a model object with a literal name: decided on the object's data attributes (a model object lists
            # every attribute the scenario gives it; methods and class constants are not asked for this way in the analysed code)
            o_ = self.ev(e.args[0])
            nm_ = self.ev(e.args[1])
            if isinstance(o_, Obj) and isinstance(nm_, str) and set(o_.__dict__) != {"_cls"}:
                if e.func.id == "hasattr":
                    return nm_ in o_.__dict__
                if nm_ in o_.__dict__:
                    return o_.__dict__[nm_]
                if len(e.args) == 3:
                    return self.ev(e.args[2])
                raise ModelRaise(Outcome("raise", "AttributeError", e))
        if isinstance(e, ast.Call) and isinstance(e.func, ast.Name) and e.func.id in ("bytes", "str") and e.func.id not in self.env and 1 <= len(e.args) <= 2 \
                and (len(e.args) == 2 or [k.arg for k in e.keywords] == ["encoding"]) and all(k.arg in ("encoding", "errors") for k in e.keywords):
            # bytes(text, encoding) / str(data, encoding)
            v0 = self.ev(e.args[0])
            enc = self.ev(e.args[1]) if len(e.args) == 2 else self.ev(e.keywords[0].value)
            if isinstance(enc, str) and ((e.func.id == "bytes" and isinstance(v0, str)) or (e.func.id == "str" and isinstance(v0, (bytes, bytearray)))):
                try:
                    return v0.encode(enc) if e.func.id == "bytes" else bytes(v0).decode(enc)
                except (UnicodeError, LookupError):
                    raise ModelRaise(Outcome("raise", "UnicodeError", e))
        if isinstance(e, ast.Call) and isinstance(e.func, ast.Name) and e.func.id in ("len", "max", "min", "abs", "int", "bool", "sum", "any", "all", "str", "tuple", "list", "range", "bytes", "divmod", "bytearray", "reversed", "enumerate", "sorted", "zip") \
                and all(k.arg in ("default", "start") for k in e.keywords):
            args = [self.ev(a) for a in e.args]
            kw = {k.arg: self.ev(k.value) for k in e.keywords}
            if e.func.id == "int" and len(args) == 2 and isinstance(args[0], str) and isinstance(args[1], int):
                try:
                    return int(args[0], args[1])
                except ValueError:
                    # the builtin's own rejection: a plain ValueError, distinguishable from a raise statement (value None)
                    raise ModelRaise(Outcome("raise", "ValueError", e))
            try:
                return {"len": len, "max": max, "min": min, "abs": abs, "int": int, "bool": bool, "sum": sum, "any": any, "all": all, "str": str, "tuple": tuple, "list": tuple, "range": range, "bytes": bytes, "divmod": divmod, "bytearray": bytearray,
                        "reversed": lambda x: tuple(reversed(x)), "enumerate": lambda x, start=0: tuple(enumerate(x, start)), "sorted": lambda x: tuple(sorted(x)),
                        "zip": lambda *a: tuple(zip(*a))}[e.func.id](*args, **kw)
            except Exception:
                raise Unsupported(e)
        if isinstance(e, ast.Call) and isinstance(e.func, ast.Attribute) and e.func.attr in ("to_bytes", "from_bytes") and 1 <= len(e.args) + len(e.keywords) <= 3 \
                and all(k.arg in ("length", "byteorder", "signed", "bytes") for k in e.keywords):
            # int <-> bytes conversions on modelled values: x.to_bytes(n, order) / int.to_bytes(x, n, order) / int.from_bytes(b, order)
            on_int_type = isinstance(e.func.value, ast.Name) and e.func.value.id == "int"
            pos = [self.ev(a) for a in e.args]
            kw = {k.arg: self.ev(k.value) for k in e.keywords}
            try:
                if e.func.attr == "from_bytes" and on_int_type:
                    return int.from_bytes(*[bytes(p) if isinstance(p, (bytes, bytearray)) else p for p in pos], **kw)
                if e.func.attr == "to_bytes":
                    if on_int_type:
                        return int.to_bytes(*pos, **kw)
                    v = self.ev(e.func.value)
                    if isinstance(v, int) and not isinstance(v, bool):
                        return v.to_bytes(*pos, **kw)
            except OverflowError:
                raise ModelRaise(Outcome("raise", "OverflowError", e))  # what the code itself does with a value that does not fit
            except (ValueError, TypeError):
                raise Unsupported(e, "conversion error on the model")
            raise Unsupported(e)
        if isinstance(e, ast.Call) and isinstance(e.func, ast.Name) and e.func.id in ("next", "iter") and 1 <= len(e.args) <= 2 and not e.keywords and e.func.id not in self.env:
            # sequences are modelled as tuples: next(<generator expression>[, default]) is the first element (iter() is the identity)
            seq = self.ev(e.args[0])
            if not isinstance(seq, (tuple, range)):
                raise Unsupported(e)
            if e.func.id == "iter":
                return tuple(seq)
            if not isinstance(e.args[0], (ast.GeneratorExp, ast.Call)):
                raise Unsupported(e, "next() on a named iterator would need iterator state")
            if len(seq):
                return seq[0]
            if len(e.args) == 2:
                return self.ev(e.args[1])
            raise ModelRaise(Outcome("raise", "StopIteration", e))
        if isinstance(e, ast.Call) and isinstance(e.func, ast.Name) and e.func.id == "memoryview" and len(e.args) == 1 and not e.keywords:
            b = self.ev(e.args[0])
            if isinstance(b, (bytes, bytearray)):
                return View(b)
            if isinstance(b, View):
                return b
            raise Unsupported(e)
        if isinstance(e, ast.Call) and isinstance(e.func, ast.Name) and e.func.id in ("bytes", "bytearray", "len") and len(e.args) == 1 and not e.keywords:
            try:
                b = self.ev(e.args[0])
            except Unsupported:
                b = None
            if isinstance(b, View):
                return len(b) if e.func.id == "len" else (bytes if e.func.id == "bytes" else bytearray)(b.tobytes())
        if isinstance(e, ast.Call) and isinstance(e.func, ast.Name) and e.func.id == "isinstance" and len(e.args) == 2 and not e.keywords:
            tys = {"str": str, "bytes": bytes, "int": int, "bytearray": bytearray, "bool": bool, "list": tuple, "tuple": tuple, "dict": dict}
            names = [e.args[1]] if isinstance(e.args[1], ast.Name) else list(e.args[1].elts) if isinstance(e.args[1], ast.Tuple) else None
            if names and all(isinstance(n, ast.Name) and n.id in tys for n in names):
                v = self.ev(e.args[0])
                if isinstance(v, Obj):
                    return False  # a model object is none of the builtin types
                return isinstance(v, tuple(tys[n.id] for n in names))
            # classes of the analysed program: an enum class (model) or a class the value's own class derives from
            try:
                kinds = [self.ev(n) for n in (names or [])]
            except Unsupported:
                kinds = []
            if kinds and all(isinstance(k_, EnumModel) for k_ in kinds):
                v = self.ev(e.args[0])
                return isinstance(v, EnumMember) and any(v in k_ for k_ in kinds)
            hook = getattr(self, "call_value", None)
            if hook is not None:
                r = hook(e, self)
                if r is not NOT_MODELLED:
                    return r
            raise Unsupported(e)
        if isinstance(e, ast.Call) and isinstance(e.func, (ast.Subscript, ast.Name)) and not e.keywords and 1 <= len(e.args) <= 2 \
                and not (isinstance(e.func, ast.Name) and e.func.id in self.env and not callable(self.env.get(e.func.id))):
            # a value that IS a function of the stdlib operator module (looked up in a table of operators, or imported by name)
            try:
                fv = self.ev(e.func) if isinstance(e.func, ast.Subscript) else (self.env.get(e.func.id) if e.func.id in self.env else (self.sym(e.func) if self.sym else None))
            except (Unsupported, KeyError):
                fv = None
            if callable(fv) and getattr(fv, "__module__", None) in ("_operator", "operator"):
                args_v = [self.ev(a) for a in e.args]
                if all(isinstance(a, (int, bool)) for a in args_v):
                    try:
                        return fv(*args_v)
                    except ZeroDivisionError:
                        raise ModelRaise(Outcome("raise", "ZeroDivisionError", e))
                    except (ValueError, OverflowError, TypeError):
                        raise ModelRaise(Outcome("raise", "ValueError", e))
        if isinstance(e, ast.Call) and isinstance(e.func, ast.Attribute) and e.func.attr == "join" and len(e.args) == 1 and not e.keywords \
                and isinstance(e.func.value, ast.Constant) and isinstance(e.func.value.value, (str, bytes)) and e.func.value.value:
            # <literal separator>.join(seq) over a modelled sequence of str / bytes
            seq = self.ev(e.args[0])
            try:
                return e.func.value.value.join(bytes(x) if isinstance(x, bytearray) else x for x in seq)
            except Exception:
                raise Unsupported(e)
        if isinstance(e, ast.Call) and isinstance(e.func, ast.Attribute) and e.func.attr in ("isdigit", "isdecimal", "isnumeric", "isalnum", "isalpha", "isascii", "isupper", "islower", "isspace") \
                and not e.args and not e.keywords:
            try:
                v = self.ev(e.func.value)
            except Unsupported:
                v = None
            if isinstance(v, (str, bytes)) and hasattr(v, e.func.attr):
                return getattr(v, e.func.attr)()
        if isinstance(e, ast.Call) and ast.unparse(e.func) in ("copy", "copy.copy", "deepcopy", "copy.deepcopy") and len(e.args) == 1 and not e.keywords \
                and ast.unparse(e.func).split(".")[-1] not in self.env:
            # copy / deepcopy of a modelled value: immutable values are themselves, sequences and model objects are copied to the stated depth
            deep = ast.unparse(e.func).endswith("deepcopy")

            def _cp(v, top=True):
                if isinstance(v, (int, str, bytes, float, type(None), EnumMember)):
                    return v
                if isinstance(v, bytearray):
                    return bytearray(v)
                if isinstance(v, (tuple, list)):
                    return type(v)(_cp(x, False) if deep else x for x in v)
                if isinstance(v, dict):
                    return {k_: (_cp(x, False) if deep else x) for k_, x in v.items()}
                if isinstance(v, Obj) and not isinstance(v, EnumModel):
                    o = Obj()
                    for k_, x in v.__dict__.items():
                        o.__dict__[k_] = _cp(x, False) if (deep and k_ != "_cls") else x
                    return o
                raise Unsupported(e, "copy of an unmodelled value")
            return _cp(self.ev(e.args[0]))
        if isinstance(e, ast.Call) and isinstance(e.func, ast.Attribute) and e.func.attr == "join" and len(e.args) == 1 and not e.keywords \
                and ast.unparse(e.func.value) in ("b''", "bytes()", "bytearray()", "''"):
            # <empty separator>.join(seq): concatenation of a modelled sequence of bytes / str
            seq = self.ev(e.args[0])
            sep = "" if ast.unparse(e.func.value) == "''" else b""
            try:
                return sep.join(bytes(x) if isinstance(x, bytearray) else x for x in seq)
            except Exception:
                raise Unsupported(e)
        if isinstance(e, ast.Call) and ast.unparse(e.func) in ("calcsize", "struct.calcsize") and len(e.args) == 1 and not e.keywords and "calcsize" not in self.env:
            import struct as _struct
            fmt_v = self.ev(e.args[0])
            if isinstance(fmt_v, str):
                try:
                    return _struct.calcsize(fmt_v)
                except _struct.error:
                    raise ModelRaise(Outcome("raise", "struct.error", e))
            raise Unsupported(e)
        if isinstance(e, ast.Call) and ast.unparse(e.func) in ("math.ceil", "ceil") and len(e.args) == 1 and isinstance(e.args[0], ast.BinOp) and isinstance(e.args[0].op, ast.Div):
            a, b = self.ev(e.args[0].left), self.ev(e.args[0].right)
            if isinstance(a, int) and isinstance(b, int) and b > 0:
                return -(-a // b)
            raise Unsupported(e)
        if isinstance(e, (ast.Tuple, ast.List, ast.Set)):
            out_t = []
            for x in e.elts:
                if isinstance(x, ast.Starred):
                    v = self.ev(x.value)
                    if not isinstance(v, (tuple, range, bytes)):
                        raise Unsupported(e)
                    out_t += list(v)
                else:
                    out_t.append(self.ev(x))
            return tuple(out_t)
        if isinstance(e, ast.UnaryOp):
            v = self.ev(e.operand)
            if isinstance(e.op, ast.Not):
                return not v
            if isinstance(e.op, ast.USub):
                return -v
            if isinstance(e.op, ast.UAdd):
                return +v
            if isinstance(e.op, ast.Invert) and isinstance(v, int):
                return ~v
            raise Unsupported(e)
        if isinstance(e, ast.BoolOp):
            if isinstance(e.op, ast.And):
                r: Any = True
                for x in e.values:
                    r = self.ev(x)
                    if not r:
                        return r
                return r
            r = False
            for x in e.values:
                r = self.ev(x)
                if r:
                    return r
            return r
        if isinstance(e, ast.Compare):
            left = self.ev(e.left)
            for op, rhs in zip(e.ops, e.comparators):
                right = self.ev(rhs)
                if isinstance(op, ast.Lt):
                    ok = left < right
                elif isinstance(op, ast.LtE):
                    ok = left <= right
                elif isinstance(op, ast.Gt):
                    ok = left > right
                elif isinstance(op, ast.GtE):
                    ok = left >= right
                elif isinstance(op, ast.Eq):
                    ok = left == right
                elif isinstance(op, ast.NotEq):
                    ok = left != right
                elif isinstance(op, ast.Is):
                    ok = left is right
                elif isinstance(op, ast.IsNot):
                    ok = left is not right
                elif isinstance(op, ast.In):
                    ok = left in right
                elif isinstance(op, ast.NotIn):
                    ok = left not in right
                else:
                    raise Unsupported(e)
                if not ok:
                    return False
                left = right
            return True
        if isinstance(e, ast.BinOp):
            a, b = self.ev(e.left), self.ev(e.right)
            if isinstance(e.op, ast.Add) and isinstance(a, (bytes, bytearray)) and isinstance(b, (bytes, bytearray)):
                return bytes(a) + bytes(b)
            if isinstance(e.op, ast.Add) and type(a) is type(b) and isinstance(a, (bytes, str, tuple)):
                return a + b
            if isinstance(e.op, ast.Mult) and isinstance(a, (bytes, str, tuple)) and isinstance(b, int) and 0 <= b < 10000:
                return a * b
            if isinstance(e.op, ast.Mult) and isinstance(b, (bytes, str, tuple)) and isinstance(a, int) and not isinstance(a, bool) and 0 <= a < 10000:
                return a * b
            if isinstance(a, (int, float)) and isinstance(b, (int, float)) and (isinstance(a, float) or isinstance(b, float)) \
                    and not isinstance(a, bool) and not isinstance(b, bool) and isinstance(e.op, (ast.Add, ast.Sub, ast.Mult, ast.Div)):
                # float arithmetic as the interpreter does it (IEEE double): only + - * / - the rules choose exactly representable models
                if isinstance(e.op, ast.Div):
                    if b == 0:
                        raise ModelRaise(Outcome("raise", "ZeroDivisionError", e))
                    return a / b
                return a + b if isinstance(e.op, ast.Add) else a - b if isinstance(e.op, ast.Sub) else a * b
            if not isinstance(a, int) or not isinstance(b, int):
                raise Unsupported(e)
            op = e.op
            if isinstance(op, ast.Add):
                return a + b
            if isinstance(op, ast.Sub):
                return a - b
            if isinstance(op, ast.Mult):
                return a * b
            if isinstance(op, ast.LShift) and 0 <= b <= 4096:
                return a << b
            if isinstance(op, ast.RShift) and 0 <= b <= 4096:
                return a >> b
            if isinstance(op, ast.BitAnd):
                return a & b
            if isinstance(op, ast.BitOr):
                return a | b
            if isinstance(op, ast.BitXor):
                return a ^ b
            if isinstance(op, ast.FloorDiv) and b != 0:
                return a // b
            if isinstance(op, ast.Div) and b != 0:
                return a / b  # true division: a float, as in the analysed code (int(...) / math.ceil(...) bring it back)
            if isinstance(op, ast.Mod) and b != 0:
                return a % b
            raise Unsupported(e)
        if isinstance(e, ast.IfExp):
            return self.ev(e.body) if self.ev(e.test) else self.ev(e.orelse)
        if isinstance(e, (ast.GeneratorExp, ast.ListComp)) and len(e.generators) == 1 and (isinstance(e.generators[0].target, ast.Name) or (
                isinstance(e.generators[0].target, ast.Tuple) and all(isinstance(x, ast.Name) for x in e.generators[0].target.elts))):
            g = e.generators[0]
            seq = self.ev(g.iter)
            if isinstance(seq, dict):
                seq = tuple(seq)
            if not isinstance(seq, (tuple, range, bytes, bytearray, str)):
                raise Unsupported(e)
            out = []
            names = [g.target.id] if isinstance(g.target, ast.Name) else [x.id for x in g.target.elts]
            saved = {n: self.env[n] for n in names if n in self.env}
            for item in seq:
                if isinstance(g.target, ast.Name):
                    self.env[g.target.id] = item
                else:
                    if not isinstance(item, tuple) or len(item) != len(names):
                        raise Unsupported(e)
                    for n, v in zip(names, item):
                        self.env[n] = v
                if all(self.ev(c) for c in g.ifs):
                    out.append(self.ev(e.elt))
            for n in names:
                self.env.pop(n, None)
            self.env.update(saved)
            return tuple(out)
        raise Unsupported(e)

    # -------------------------------------------------------------- statements
    def run(self, body: Iterable[ast.stmt], stop_at_unsupported: bool = False) -> Outcome:
        for st in body:
            try:
                o = self.step(st)
            except ModelRaise as mr:
                return Outcome("raise", mr.outcome.value, st)
            except Unsupported:
                if stop_at_unsupported:
                    return Outcome("fall", None, st)
                raise
            if o is not None:
                return o
        return Outcome("fall")

    def step(self, st: ast.stmt) -> Optional[Outcome]:
        if isinstance(st, ast.Expr):
            if isinstance(st.value, ast.Constant):
                return None  # docstring
            if isinstance(st.value, ast.Call):
                f = st.value.func
                if isinstance(f, ast.Attribute) and isinstance(f.value, ast.Name) and f.value.id in ("logger", "logging"):
                    return None
                if isinstance(f, ast.Attribute) and f.attr in self.ignore_calls:
                    return None
                # sequence accumulation on a local: xs.append(v) / xs.extend(vs) (sequences are modelled as tuples)
                if isinstance(f, ast.Attribute) and f.attr in ("append", "extend") and isinstance(f.value, ast.Name) and isinstance(self.env.get(f.value.id), tuple) \
                        and len(st.value.args) == 1 and not st.value.keywords:
                    v = self.ev(st.value.args[0])
                    self.env[f.value.id] = self.env[f.value.id] + ((v,) if f.attr == "append" else tuple(v))
                    return None
                if isinstance(f, ast.Attribute) and f.attr in ("append", "extend") and isinstance(f.value, ast.Attribute) and len(st.value.args) == 1 and not st.value.keywords:
                    # the same on a sequence held in an attribute of a model object: obj.items.append(v)
                    try:
                        holder = self.ev(f.value.value)
                    except Unsupported:
                        holder = None
                    if isinstance(holder, Obj) and isinstance(holder.__dict__.get(f.value.attr), tuple):
                        v = self.ev(st.value.args[0])
                        holder.__dict__[f.value.attr] = holder.__dict__[f.value.attr] + ((v,) if f.attr == "append" else tuple(v))
                        return None
                if isinstance(f, ast.Attribute) and f.attr in ("extend", "append", "reverse", "clear") and isinstance(f.value, ast.Name) and isinstance(self.env.get(f.value.id), bytearray) \
                        and not st.value.keywords and len(st.value.args) == (0 if f.attr in ("reverse", "clear") else 1):
                    buf = self.env[f.value.id]
                    if f.attr == "reverse":
                        buf.reverse()
                    elif f.attr == "clear":
                        buf.clear()
                    else:
                        v = self.ev(st.value.args[0])
                        if isinstance(v, View):
                            v = v.tobytes()
                        try:
                            buf.extend(v) if f.attr == "extend" else buf.append(v)
                        except (TypeError, ValueError):
                            raise Unsupported(st)
                    return None
                if isinstance(f, ast.Attribute) and f.attr == "insert" and isinstance(f.value, ast.Name) and isinstance(self.env.get(f.value.id), tuple) \
                        and len(st.value.args) == 2 and not st.value.keywords:
                    i, v = self.ev(st.value.args[0]), self.ev(st.value.args[1])
                    lst = list(self.env[f.value.id])
                    lst.insert(i, v)
                    self.env[f.value.id] = tuple(lst)
                    return None
                if isinstance(f, ast.Attribute) and f.attr == "update" and len(st.value.args) == 1 and not st.value.keywords:
                    try:
                        tgt_d = self.ev(f.value)
                    except Unsupported:
                        tgt_d = None
                    if isinstance(tgt_d, dict):
                        src_d = self.ev(st.value.args[0])
                        if not isinstance(src_d, dict):
                            raise Unsupported(st, "dict.update with a non-dict model value")
                        tgt_d.update(src_d)  # model dictionaries are mutable and shared, like the real ones
                        return None
                if isinstance(f, ast.Attribute) and f.attr in ("append", "extend") and isinstance(f.value, ast.Subscript) and len(st.value.args) == 1 and not st.value.keywords:
                    try:
                        holder_d = self.ev(f.value.value)
                    except Unsupported:
                        holder_d = None
                    if isinstance(holder_d, dict):
                        k_ = self.ev(f.value.slice)
                        if isinstance(holder_d.get(k_), tuple):
                            v = self.ev(st.value.args[0])
                            holder_d[k_] = holder_d[k_] + ((v,) if f.attr == "append" else tuple(v))
                            return None
                if isinstance(f, ast.Attribute) and f.attr in ("reverse", "sort") and isinstance(f.value, ast.Name) and isinstance(self.env.get(f.value.id), tuple) \
                        and not st.value.args and not st.value.keywords:
                    # in-place reverse / sort of a list the model keeps as a tuple
                    cur_t = self.env[f.value.id]
                    try:
                        self.env[f.value.id] = tuple(reversed(cur_t)) if f.attr == "reverse" else tuple(sorted(cur_t))
                    except TypeError:
                        raise Unsupported(st, "sort of unordered model values")
                    return None
                if self.call_hook is not None and self.call_hook(st.value, self):
                    return None
                if getattr(self, "call_value", None) is not None and self.call_value(st.value, self) is not NOT_MODELLED:
                    return None
                if isinstance(f, ast.Name) and isinstance(self.env.get(f.id), LocalFunc):
                    self.ev(st.value)  # a local function called for its effect on the model
                    return None
            raise Unsupported(st)
        if isinstance(st, ast.Pass) or isinstance(st, (ast.Import, ast.ImportFrom)):
            return None
        if isinstance(st, ast.FunctionDef) and not st.decorator_list:
            self.env[st.name] = LocalFunc(st, self)
            return None
        if isinstance(st, ast.If):
            branch = st.body if self.ev(st.test) else st.orelse
            for s in branch:
                o = self.step(s)
                if o is not None:
                    return o
            return None
        if isinstance(st, ast.Raise):
            return Outcome("raise", None, st)
        if isinstance(st, ast.Assert):
            if not self.ev(st.test):
                return Outcome("raise", "assert", st)
            return None
        if isinstance(st, ast.Return):
            if st.value is None:
                return Outcome("return", None, st)
            try:
                return Outcome("return", self.ev(st.value), st)
            except Unsupported:
                if self.opaque_return:
                    return Outcome("return", "<expr>", st)
                raise
        if isinstance(st, ast.Try) and not all(_always_raises(h.body) for h in st.handlers):
            # recovery handlers: understood as long as nothing modelled raises inside the body (the models' leaves do not raise)
            try:
                for s2 in list(st.body) + list(st.orelse):
                    o = self.step(s2)
                    if o is not None:
                        if o.kind == "raise":
                            raise Unsupported(st, "a raise inside a try with recovery handlers")
                        for s3 in st.finalbody:
                            self.step(s3)
                        return o
            except ModelRaise as mr:
                # a leaf raised a NAMED builtin exception (int() -> ValueError, struct.error, ...): the first handler whose class covers it
                # recovers, exactly as the interpreter would select it; an unnamed model raise stays outside the fragment
                import builtins as _b
                exc_name = getattr(mr.outcome, "value", None)
                exc_cls = getattr(_b, exc_name, None) if isinstance(exc_name, str) else None
                if not (isinstance(exc_cls, type) and issubclass(exc_cls, BaseException)):
                    raise Unsupported(st, "a modelled callee raised inside a try with recovery handlers")
                chosen = None
                for h in st.handlers:
                    names = [] if h.type is None else [ast.unparse(x) for x in (h.type.elts if isinstance(h.type, ast.Tuple) else [h.type])]
                    hcls = [getattr(_b, n_, None) for n_ in names]
                    if h.type is None or any(isinstance(k_, type) and issubclass(exc_cls, k_) for k_ in hcls):
                        chosen = h
                        break
                    if any(k_ is None for k_ in hcls):
                        raise Unsupported(st, "a handler for a non-builtin exception class next to a modelled builtin raise")
                if chosen is None:
                    for s3 in st.finalbody:
                        self.step(s3)
                    raise
                if chosen.name:
                    self.env[chosen.name] = Obj(_exc=exc_name)
                for s2 in chosen.body:
                    o = self.step(s2)
                    if o is not None:
                        for s3 in st.finalbody:
                            self.step(s3)
                        return o
            for s3 in st.finalbody:
                o = self.step(s3)
                if o is not None:
                    return o
            return None
        if isinstance(st, ast.Try) and not st.finalbody and not st.orelse and all(_always_raises(h.body) for h in st.handlers):
            # exception-translation wrapper: the body decides
            for s in st.body:
                o = self.step(s)
                if o is not None:
                    return o
            return None
        if isinstance(st, ast.While) and not st.orelse:
            n = 0
            while self.ev(st.test):
                n += 1
                if n > 5000:
                    raise Unsupported(st, "loop bound exceeded (non-terminating on the model)")
                brk = False
                for s in st.body:
                    o = self.step(s)
                    if o is not None:
                        if o.kind == "continue":
                            break
                        if o.kind == "break":
                            brk = True
                            break
                        return o
                if brk:
                    break
            return None
        if isinstance(st, ast.For) and isinstance(st.target, ast.Tuple) and isinstance(st.iter, ast.Call) and isinstance(st.iter.func, ast.Name) \
                and st.iter.func.id == "enumerate" and len(st.target.elts) == 2 and all(isinstance(x, ast.Name) for x in st.target.elts) and not st.orelse:
            seq = self.ev(st.iter.args[0])
            start = 0
            for k in st.iter.keywords:
                if k.arg == "start":
                    start = self.ev(k.value)
            if len(st.iter.args) > 1:
                start = self.ev(st.iter.args[1])
            if not isinstance(seq, tuple):
                raise Unsupported(st)
            return self._loop(st, list(enumerate(seq, start)), pair=True)
        if isinstance(st, ast.For) and isinstance(st.target, ast.Tuple) and all(isinstance(x, ast.Name) for x in st.target.elts) and not st.orelse:
            seq = self.ev(st.iter)
            if not isinstance(seq, tuple) or not all(isinstance(i, tuple) and len(i) == len(st.target.elts) for i in seq):
                raise Unsupported(st)
            return self._loop(st, seq, pair=True)
        if isinstance(st, ast.For):
            # only `for <name> in range(<int exprs>)` with a small bound
            it = st.iter
            if isinstance(st.target, ast.Name) and not st.orelse and not (isinstance(it, ast.Call) and isinstance(it.func, ast.Name) and it.func.id == "range"):
                seq = self.ev(it)
                if isinstance(seq, dict):
                    seq = tuple(seq)
                if isinstance(seq, tuple):
                    return self._loop(st, seq)
                raise Unsupported(st)
            if not (isinstance(st.target, ast.Name) and isinstance(it, ast.Call) and isinstance(it.func, ast.Name)
                    and it.func.id == "range" and 1 <= len(it.args) <= 3 and not st.orelse):
                raise Unsupported(st)
            rargs = [self.ev(a) for a in it.args]
            if not all(isinstance(a, int) for a in rargs) or len(range(*rargs)) > 4096:
                raise Unsupported(st)
            return self._loop(st, range(*rargs))
        if isinstance(st, ast.With) and all(isinstance(i.optional_vars, (ast.Name, type(None))) for i in st.items):
            # context managers are modelled by their value (memoryview, model objects): bind and run the body
            for i in st.items:
                v = self.ev(i.context_expr)
                if i.optional_vars is not None:
                    self.env[i.optional_vars.id] = v
            for s2 in st.body:
                o = self.step(s2)
                if o is not None:
                    return o
            return None
        if isinstance(st, ast.Continue):
            return Outcome("continue", None, st)
        if isinstance(st, ast.Break):
            return Outcome("break", None, st)
        if isinstance(st, (ast.Assign, ast.AnnAssign)):
            if isinstance(st, ast.Assign) and len(st.targets) != 1:
                # chained assignment a = b.c = value: evaluate once, store left to right
                if not all(isinstance(t, (ast.Name, ast.Attribute)) for t in st.targets):
                    raise Unsupported(st)
                v = self.ev(st.value)
                for t in st.targets:
                    self._store(t, v, st)
                return None
            tgt = st.targets[0] if isinstance(st, ast.Assign) else st.target
            if isinstance(tgt, ast.Name) and st.value is not None:
                self.env[tgt.id] = self.ev(st.value)
                return None
            if isinstance(tgt, (ast.Tuple, ast.List)) and st.value is not None and all(isinstance(x, ast.Name) for x in tgt.elts):
                v = self.ev(st.value)
                if not isinstance(v, tuple) or len(v) != len(tgt.elts):
                    raise Unsupported(st)
                for x, y in zip(tgt.elts, v):
                    self.env[x.id] = y
                return None
            if isinstance(tgt, (ast.Tuple, ast.List)) and st.value is not None and sum(isinstance(x, ast.Starred) for x in tgt.elts) == 1 \
                    and all(isinstance(x, ast.Name) or (isinstance(x, ast.Starred) and isinstance(x.value, ast.Name)) for x in tgt.elts):
                # a, *rest, z = seq
                v = self.ev(st.value)
                k_star = [i for i, x in enumerate(tgt.elts) if isinstance(x, ast.Starred)][0]
                n_after = len(tgt.elts) - k_star - 1
                if not isinstance(v, tuple) or len(v) < len(tgt.elts) - 1:
                    if isinstance(v, tuple):
                        raise ModelRaise(Outcome("raise", "ValueError", st))
                    raise Unsupported(st)
                for x, y in zip(tgt.elts[:k_star], v[:k_star]):
                    self.env[x.id] = y
                self.env[tgt.elts[k_star].value.id] = tuple(v[k_star:len(v) - n_after])
                for x, y in zip(tgt.elts[k_star + 1:], v[len(v) - n_after:] if n_after else ()):
                    self.env[x.id] = y
                return None
            if isinstance(tgt, (ast.Tuple, ast.List)) and st.value is not None and not any(isinstance(x, ast.Starred) for x in tgt.elts):
                # general unpacking: the right-hand side is evaluated completely first, then stored left to right
                v = self.ev(st.value)
                if not isinstance(v, tuple) or len(v) != len(tgt.elts):
                    raise Unsupported(st)
                for i, (x, y) in enumerate(zip(tgt.elts, v)):
                    tmp = f"__unpack{i}"
                    self.env[tmp] = y
                    o = self.step(ast.copy_location(ast.Assign(targets=[x], value=ast.Name(id=tmp, ctx=ast.Load())), st))
                    del self.env[tmp]
                    if o is not None:
                        return o
                return None
            if isinstance(tgt, ast.Attribute) and st.value is not None:
                self._store(tgt, self.ev(st.value), st)
                return None
            if isinstance(tgt, ast.Subscript) and st.value is not None and not isinstance(tgt.slice, ast.Slice):
                try:
                    dbase = self.ev(tgt.value)
                except Unsupported:
                    dbase = None
                if isinstance(dbase, dict):
                    dbase[self.ev(tgt.slice)] = self.ev(st.value)
                    return None
            if isinstance(tgt, ast.Subscript) and st.value is not None and isinstance(tgt.value, ast.Name) and isinstance(self.env.get(tgt.value.id), tuple) \
                    and not isinstance(tgt.slice, ast.Slice):
                # item store on a local sequence (modelled as a tuple)
                lst = list(self.env[tgt.value.id])
                try:
                    lst[self.ev(tgt.slice)] = self.ev(st.value)
                except IndexError:
                    return Outcome("raise", "IndexError", st)
                self.env[tgt.value.id] = tuple(lst)
                return None
            if isinstance(tgt, ast.Subscript) and st.value is not None:
                base = self.ev(tgt.value)
                if isinstance(base, View) and isinstance(tgt.slice, ast.Slice) and tgt.slice.step is None:
                    val = self.ev(st.value)
                    if not isinstance(val, (bytes, bytearray, View)):
                        raise Unsupported(st)
                    okv = base.store(self.ev(tgt.slice.lower) if tgt.slice.lower is not None else None, self.ev(tgt.slice.upper) if tgt.slice.upper is not None else None, val)
                    return None if okv else Outcome("raise", "ValueError", st)
                if isinstance(base, bytearray):
                    val = self.ev(st.value)
                    if isinstance(val, View):
                        val = val.tobytes()
                    if isinstance(tgt.slice, ast.Slice):
                        lo = self.ev(tgt.slice.lower) if tgt.slice.lower is not None else None
                        hi = self.ev(tgt.slice.upper) if tgt.slice.upper is not None else None
                        if not isinstance(val, (bytes, bytearray)):
                            raise Unsupported(st)
                        if tgt.slice.step is not None:
                            try:
                                base[lo:hi:self.ev(tgt.slice.step)] = val
                            except ValueError:
                                return Outcome("raise", "ValueError", st)
                            return None
                        base[lo:hi] = val
                    else:
                        base[self.ev(tgt.slice)] = val
                    return None
            raise Unsupported(st)
        if isinstance(st, ast.AugAssign) and isinstance(st.target, ast.Subscript) and not isinstance(st.target.slice, ast.Slice):
            # a[i] op= v  on a modelled mutable sequence / dict: index evaluated once, then an item store
            idx = self.ev(st.target.slice)
            tmp_i, tmp_v = "__augidx", "__augval"
            self.env[tmp_i] = idx
            load = ast.Subscript(value=st.target.value, slice=ast.Name(id=tmp_i, ctx=ast.Load()), ctx=ast.Load())
            try:
                self.env[tmp_v] = self.ev(ast.BinOp(left=load, op=st.op, right=st.value))
                store = ast.Subscript(value=st.target.value, slice=ast.Name(id=tmp_i, ctx=ast.Load()), ctx=ast.Store())
                return self.step(ast.copy_location(ast.Assign(targets=[store], value=ast.Name(id=tmp_v, ctx=ast.Load())), st))
            finally:
                self.env.pop(tmp_i, None)
                self.env.pop(tmp_v, None)
        if isinstance(st, ast.AugAssign):
            k = st.target.id if isinstance(st.target, ast.Name) else ast.unparse(st.target) if isinstance(st.target, ast.Attribute) else None
            if k is None:
                raise Unsupported(st)
            binop = ast.BinOp(left=st.target, op=st.op, right=st.value)
            if k not in self.env:
                if isinstance(st.target, ast.Attribute):
                    self._store(st.target, self.ev(binop), st, must_exist=True)
                    return None
                raise Unsupported(st)
            self.env[k] = self.ev(binop)
            return None
        raise Unsupported(st)

    def _store(self, tgt: ast.expr, value: Any, st: ast.stmt, must_exist: bool = False) -> None:
        if isinstance(tgt, ast.Name):
            self.env[tgt.id] = value
            return
        if isinstance(tgt, ast.Attribute):
            k = ast.unparse(tgt)
            if k not in self.env:
                try:
                    base = self.ev(tgt.value)
                except Unsupported:
                    base = None
                if isinstance(base, Obj):
                    hook = getattr(getattr(self, "call_value", None), "store_attr", None)
                    if hook is not None and tgt.attr not in base.__dict__ and hook(base, tgt.attr, value, self, st):
                        return  # a property setter of the object's class took the value
                    if must_exist and tgt.attr not in base.__dict__:
                        raise Unsupported(st)
                    base.__dict__[tgt.attr] = value
                    return
                if must_exist:
                    raise Unsupported(st)
            self.env[k] = value
            return
        raise Unsupported(st)

    def _loop(self, st: ast.For, seq: Any, pair: bool = False) -> Optional[Outcome]:
        if True:
            for i in seq:
                if pair:
                    for x, v in zip(st.target.elts, i):
                        self.env[x.id] = v
                else:
                    self.env[st.target.id] = i
                brk = False
                for s in st.body:
                    o = self.step(s)
                    if o is not None:
                        if o.kind == "continue":
                            break
                        if o.kind == "break":
                            brk = True
                            break
                        return o
                if brk:
                    break
            return None


def _always_raises(stmts: List[ast.stmt]) -> bool:
    if not stmts:
        return False
    last = stmts[-1]
    if isinstance(last, ast.Raise):
        return True
    if isinstance(last, ast.If):
        return bool(last.orelse) and _always_raises(last.body) and _always_raises(last.orelse)
    return False


def grid(names: List[str], lo: int, hi: int, constraints: Optional[Callable[[Dict[str, int]], bool]] = None,
         values: Optional[Dict[str, List[int]]] = None):
    doms = [sorted(set((values or {}).get(n, range(lo, hi + 1)))) for n in names]
    for vals in itertools.product(*doms):
        env = dict(zip(names, vals))
        if constraints is None or constraints(env):
            yield env


def decide(body: List[ast.stmt], names: List[str], reference: Callable[[Dict[str, int]], Tuple[str, Any]],
           lo: int = -1, hi: int = 5, sym_factory: Optional[Callable[[Dict[str, int]], SymFn]] = None,
           constraints: Optional[Callable[[Dict[str, int]], bool]] = None, consts: Optional[Dict[str, Any]] = None,
           stop_at_unsupported: bool = True, values: Optional[Dict[str, List[int]]] = None,
           call_value: Optional[Callable[[ast.Call, "Evaluator"], Any]] = None) -> Tuple[int, Optional[Dict[str, Any]]]:
    """Evaluate body on the grid; returns (points evaluated, first counterexample or None).
    reference(env) -> expected Outcome.sig()."""
    n = 0
    for env in grid(names, lo, hi, constraints, values):
        full = dict(consts or {})
        full.update(env)
        evr = Evaluator(full, sym_factory(env) if sym_factory else None, call_value=call_value)
        out = evr.run(body, stop_at_unsupported=stop_at_unsupported)
        n += 1
        exp = reference(env)
        got = out.sig()
        if exp[1] == "<expr>" and got[0] == exp[0]:
            continue
        if got != exp:
            return n, {"env": env, "got": out.sig(), "expected": exp, "stmt": ast.unparse(out.node)[:120] if out.node is not None else None}
    return n, None


def int_constants(node: ast.AST, fold: Optional[Callable[[ast.expr], Any]] = None) -> List[int]:
    """Integer constants occurring in comparisons of a guard (folded), for critical-value grids."""
    out = set()
    for n in ast.walk(node):
        if isinstance(n, ast.Constant) and isinstance(n.value, int) and not isinstance(n.value, bool):
            out.add(n.value)
        elif fold is not None and isinstance(n, (ast.Name, ast.Attribute, ast.BinOp)):
            v = fold(n)
            if isinstance(v, int) and not isinstance(v, bool):
                out.add(v)
    return sorted(out)


def critical(consts: Iterable[int], small: Iterable[int] = range(-2, 6)) -> List[int]:
    s = set(small)
    for c in consts:
        s.update((c - 1, c, c + 1))
    return sorted(s)
