"""E1 PackSym - writer/reader wire-format symmetry for struct-packed classes.

For a (writer, reader) pair of one class that use the same folded struct format:
  arity      number of packed arguments / unpacked targets = number of format items
  duplicate  one non-constant source is packed into two positions that the reader routes to different fields
  swap       position i is written from field A and read into field B while B is written at position k != i
  misplaced  a named field is read from a constant position while the position it is written to is skipped
  zero-read  the reader derives data from a position the writer always fills with zero (reserved/padding)
  tag        a constant the writer packs and a constant the reader compares that position with must be equal
Everything else is reported as UNRESOLVED (never a verdict).
"""
from __future__ import annotations

import ast
from typing import Any, Dict, List, Optional, Set, Tuple

from ..core import astutil as A
from ..core.report import norm
from ..core.symtab import UNKNOWN, ClassInfo, FuncInfo, Program, struct_items

TRANSPARENT = {"int", "bool", "bytes", "bytearray", "swap16", "swap32", "abs"}


def _canon(name: str) -> str:
    return name.split(".")[-1].lstrip("_").lower()


class Side:
    """One position of a pack call or unpack target list."""
    def __init__(self, kind: str, name: str = "", value: Any = None, text: str = "", attrs: Optional[Set[str]] = None):
        self.kind, self.name, self.value, self.text, self.attrs = kind, name, value, text, attrs or set()

    def __repr__(self) -> str:
        if self.kind == "const":
            return f"const({self.value!r})"
        if self.kind in ("attr", "param", "len"):
            return f"{self.kind}({self.name})"
        return f"{self.kind}({self.text[:40]})"


def fold_fmt(prog: Program, fn: FuncInfo, cls: Optional[ClassInfo], e: ast.expr) -> Any:
    e2 = A.inline_locals(fn.node, e)
    return prog.fold(e2, fn.module, cls or fn.cls, {"__owner__": fn.cls})


def pack_calls(fn: FuncInfo) -> List[ast.Call]:
    return [c for c in A.calls_in(fn.node) if A.call_name(c) == "pack" and c.args and not (isinstance(c.func, ast.Attribute) and A.dotted(c.func) not in ("struct.pack",))]


def unpack_sites(fn: FuncInfo) -> List[Tuple[ast.Call, Optional[ast.AST], ast.AST]]:
    """(unpack call, target tuple or None, enclosing statement)"""
    out = []
    for c in A.calls_in(fn.node):
        if A.call_name(c) in ("unpack", "unpack_from") and c.args:
            if isinstance(c.func, ast.Attribute) and A.dotted(c.func) not in ("struct.unpack", "struct.unpack_from"):
                continue
            st = A.enclosing_stmt(c)
            tgt = None
            if isinstance(st, ast.Assign) and st.value is c:
                tgt = st.targets[0]
            out.append((c, tgt, st))
    return out


def writer_side(prog: Program, fn: FuncInfo, cls: ClassInfo, arg: ast.expr) -> Side:
    e = A.inline_locals(fn.node, arg)
    v = prog.fold(e, fn.module, cls, {"__owner__": fn.cls})
    if v is not UNKNOWN and isinstance(v, (int, bytes, str, bool)):
        return Side("const", value=v, text=norm(arg))
    core = e
    while isinstance(core, ast.Call) and A.call_name(core) in TRANSPARENT and len(core.args) >= 1:
        core = core.args[0]
    # enum tag: self.x.tag
    if isinstance(core, ast.Attribute) and core.attr in ("tag", "value") and isinstance(core.value, ast.Attribute):
        core = core.value
    d = A.dotted(core)
    if d and d.split(".")[0] == "self" and len(d.split(".")) >= 2:
        return Side("attr", name=d[5:], text=norm(arg))
    if isinstance(core, ast.Call) and A.call_name(core) == "len" and core.args:
        dd = A.dotted(core.args[0])
        if dd and dd.startswith("self."):
            return Side("len", name=dd[5:], text=norm(arg))
    attrs = {a[5:] for a in A.attrs_in(e) if a.startswith("self.")}
    # keep only maximal chains
    attrs = {a for a in attrs if not any(b != a and b.startswith(a + ".") for b in attrs)}
    if len(attrs) == 1:
        parts = next(iter(attrs)).split(".")
        while len(parts) > 1 and parts[-1] in ("nums", "tag", "value", "label", "real", "timestamp"):
            parts = parts[:-1]
        # a value computed from exactly one field of the object: that field is its source
        return Side("attr", name=".".join(parts), text=norm(e), attrs=attrs)
    return Side("expr", text=norm(e), attrs=attrs)


def _ctor_param_sink(prog: Program, cls: ClassInfo, param: str) -> str:
    """Attribute name the constructor stores the parameter under (param itself if not found)."""
    init = prog.find_method(cls, "__init__")
    if init is None:
        return param
    for st in A.walk_no_nested(init.node):
        if isinstance(st, (ast.Assign, ast.AnnAssign)) and st.value is not None:
            tgt = st.targets[0] if isinstance(st, ast.Assign) else st.target
            d = A.dotted(tgt)
            if d and d.startswith("self.") and any(isinstance(n, ast.Name) and n.id == param for n in ast.walk(st.value)):
                # direct or lightly wrapped store
                names = [n.id for n in ast.walk(st.value) if isinstance(n, ast.Name)]
                others = [x for x in names if x in init.params() and x != param]
                if not others:
                    return d[5:]
    return param


def reader_side(prog: Program, fn: FuncInfo, cls: ClassInfo, target: ast.expr) -> Side:
    if isinstance(target, ast.Starred):
        return Side("expr", text=norm(target))
    d = A.dotted(target)
    if isinstance(target, ast.Attribute) and d:
        return Side("attr", name=".".join(d.split(".")[1:]), text=d)
    if not isinstance(target, ast.Name):
        return Side("expr", text=norm(target))
    name = target.id
    if name.startswith("_"):
        return Side("ignored", text=name)
    uses = [n for n in A.walk_no_nested(fn.node) if isinstance(n, ast.Name) and n.id == name and isinstance(n.ctx, ast.Load)]
    if not uses:
        return Side("ignored", text=name)
    sinks: List[Side] = []
    for u in uses:
        # climb to the consuming construct
        cur: ast.AST = u
        par = A.parent(cur)
        hops = 0
        derived = False
        while par is not None and hops < 6:
            if isinstance(par, (ast.Subscript, ast.Slice, ast.BinOp)) and not isinstance(par, ast.keyword):
                derived = True  # the value only takes part in computing something (slice bound, arithmetic): not a field sink
            if derived and isinstance(par, (ast.keyword, ast.Call, ast.Assign, ast.AnnAssign)):
                break
            if isinstance(par, ast.keyword) and par.arg:
                call = A.parent(par)
                if isinstance(call, ast.Call):
                    k = _callee_class(prog, fn, cls, call)
                    if k is not None:
                        sinks.append(Side("param", name=_ctor_param_sink(prog, k, par.arg), text=f"{k.name}({par.arg}=)"))
                        break
            if isinstance(par, ast.Call) and cur in par.args:
                k = _callee_class(prog, fn, cls, par)
                if k is not None:
                    init = prog.find_method(k, "__init__")
                    if init is not None and not any(isinstance(a, ast.Starred) for a in par.args):
                        ps = init.params()[1:]
                        idx = par.args.index(cur)  # type: ignore[arg-type]
                        if idx < len(ps):
                            sinks.append(Side("param", name=_ctor_param_sink(prog, k, ps[idx]), text=f"{k.name}(#{idx})"))
                            break
            if isinstance(par, (ast.Assign, ast.AnnAssign)) and (par.value is cur or (par.value is not None and cur in ast.walk(par.value))):
                tgt = par.targets[0] if isinstance(par, ast.Assign) else par.target
                dd = A.dotted(tgt)
                if dd and "." in dd:
                    sinks.append(Side("attr", name=".".join(dd.split(".")[1:]), text=dd))
                    break
                if isinstance(tgt, ast.Name):
                    # re-bound to another local: follow one level, only through plain copies / conversions of the value itself
                    v = par.value
                    while isinstance(v, ast.Call) and len(v.args) == 1 and not v.keywords:
                        v = v.args[0]
                    plain = isinstance(v, ast.Name) and v.id == name
                    s2 = reader_side(prog, fn, cls, ast.Name(id=tgt.id, ctx=ast.Store())) if (tgt.id != name and plain) else None
                    if s2 is not None and s2.kind != "ignored":
                        sinks.append(s2)
                    break
            if isinstance(par, ast.Compare):
                stmt = A.enclosing_stmt(par)
                if isinstance(stmt, ast.If) and A.always_raises(stmt.body) or isinstance(stmt, ast.Assert):
                    other = [x for x in [par.left] + par.comparators if x is not cur and not (isinstance(x, ast.Name) and x.id == name)]
                    v = prog.fold(A.inline_locals(fn.node, other[0]), fn.module, cls, {"__owner__": fn.cls}) if other else UNKNOWN
                    sinks.append(Side("check", value=v, text=norm(par)))
                    break
            if isinstance(par, ast.stmt):
                break
            cur, par = par, A.parent(par)
            hops += 1
    named = [s for s in sinks if s.kind in ("param", "attr")]
    if named:
        return named[0]
    checks = [s for s in sinks if s.kind == "check"]
    if checks:
        return checks[0]
    return Side("expr", text=name)


def _callee_class(prog: Program, fn: FuncInfo, cls: ClassInfo, call: ast.Call) -> Optional[ClassInfo]:
    """Only constructions of the class under analysis (or a class related to it by inheritance) are sinks."""
    f = call.func
    if isinstance(f, ast.Name) and f.id == "cls":
        return cls
    if any(isinstance(a, ast.Raise) for a in A.ancestors(call)):
        return None
    k = prog.resolve_expr_class(fn.module, f) if isinstance(f, (ast.Name, ast.Attribute)) else None
    if k is not None and (k is cls or cls in prog.mro(k) or k in prog.mro(cls)):
        return k
    return None


def _derives_size(fn: FuncInfo, name: str) -> bool:
    """The local is used as a loop count, slice bound or multiplier."""
    for n in A.walk_no_nested(fn.node):
        if isinstance(n, ast.Call) and A.call_name(n) == "range" and any(isinstance(x, ast.Name) and x.id == name for a in n.args for x in ast.walk(a)):
            return True
        if isinstance(n, ast.Slice) and any(isinstance(x, ast.Name) and x.id == name for b in (n.lower, n.upper) if b is not None for x in ast.walk(b)):
            return True
    return False


class PairResult:
    def __init__(self, cls: ClassInfo, writer: FuncInfo, reader: FuncInfo, fmt: str):
        self.cls, self.writer, self.reader, self.fmt = cls, writer, reader, fmt
        self.w: List[Side] = []
        self.r: List[Side] = []
        self.problems: List[Tuple[str, str]] = []  # (rule, text)
        self.unresolved: List[str] = []

    @property
    def name(self) -> str:
        return f"{self.cls.qual} {self.writer.name}<->{self.reader.name}"


def writer_layouts(prog: Program, cls: ClassInfo, fn: FuncInfo, depth: int = 0) -> List[Tuple[str, ast.Call, FuncInfo]]:
    """(format, pack call, owning function) in emission order, following super().<method>() into the base class."""
    out: List[Tuple[int, int, Any]] = []
    singles = []
    for c in pack_calls(fn):
        fmt = fold_fmt(prog, fn, cls, c.args[0])
        if isinstance(fmt, str):
            out.append((c.lineno, c.col_offset, (fmt, c, fn)))
            its = struct_items(fmt)
            st = A.enclosing_stmt(c)
            if its is not None and len(its) == 1 and len(c.args) == 2:
                # the pack is one operand of a concatenation that feeds an accumulator: `acc += pack(..)`, `acc = pack(..) + pack(..)`,
                # `return pack(..) + pack(..)` (one canonical key per accumulator)
                top = c
                while isinstance(getattr(top, "_parent", None), ast.BinOp) and isinstance(top._parent.op, ast.Add):  # type: ignore[attr-defined]
                    top = top._parent  # type: ignore[attr-defined]
                if isinstance(st, ast.AugAssign) and isinstance(st.op, ast.Add) and st.value is top:
                    singles.append((c, fmt, norm(st.target)))
                elif isinstance(st, ast.Assign) and st.value is top and top is not c and len(st.targets) == 1:
                    singles.append((c, fmt, norm(st.targets[0])))
                elif isinstance(st, ast.Return) and st.value is top and top is not c:
                    singles.append((c, fmt, "<return>"))
    # idiom: one pack per field joined with `acc += pack(<order><item>, value)` -> one virtual layout
    if len(singles) >= 2 and len({t for _c, _f, t in singles}) == 1 and len({f[0] for _c, f, _t in singles}) == 1 and singles[0][1][0] in "<>!=":
        order = singles[0][1][0]
        fmt = order + "".join(f[1:] for _c, f, _t in singles)
        virt = ast.Call(func=ast.Name(id="pack", ctx=ast.Load()), args=[ast.Constant(value=fmt)] + [c.args[1] for c, _f, _t in singles], keywords=[])
        first = singles[0][0]
        virt.lineno, virt.col_offset = first.lineno, first.col_offset
        for ch in ast.walk(virt):
            if not hasattr(ch, "_parent"):
                ch._parent = getattr(first, "_parent", None)  # type: ignore[attr-defined]
        out.append((first.lineno, first.col_offset - 0.5, (fmt, virt, fn)))
    if depth < 3:
        for c in A.calls_in(fn.node):
            if isinstance(c.func, ast.Attribute) and isinstance(c.func.value, ast.Call) and norm(c.func.value.func) == "super" and fn.cls is not None:
                m = prog.mro(cls)
                idx = m.index(fn.cls) + 1 if fn.cls in m else 1
                for k in m[idx:]:
                    sf = k.method(c.func.attr)
                    if sf is not None:
                        for j, item in enumerate(writer_layouts(prog, cls, sf, depth + 1)):
                            out.append((c.lineno, c.col_offset + j * 0.001, item))
                        break
    out.sort(key=lambda x: (x[0], x[1]))
    return [x[2] for x in out]


def reader_layouts(prog: Program, cls: ClassInfo, fn: FuncInfo) -> List[Tuple[str, ast.Call, Optional[ast.AST], FuncInfo, Optional[List["Side"]]]]:
    """(format, unpack call, target tuple, owning function, precomputed sides or None) in source order. A helper classmethod that
    unpacks and returns a sub-tuple which the caller re-binds positionally is followed (sides are computed in the caller)."""
    out: List[Tuple[int, int, Any]] = []
    for c, tgt, _st in unpack_sites(fn):
        fmt = fold_fmt(prog, fn, cls, c.args[0])
        if isinstance(fmt, str):
            out.append((c.lineno, c.col_offset, (fmt, c, tgt, fn, None)))
    for c in A.calls_in(fn.node):
        f = c.func
        if isinstance(f, ast.Attribute) and isinstance(f.value, ast.Name) and f.value.id in ("cls", "self"):
            h = prog.find_method(cls, f.attr)
            if h is None or h.node is fn.node:
                continue
            sites = unpack_sites(h)
            rets = A.returns_in(h.node)
            st = A.enclosing_stmt(c)
            if len(sites) != 1 or len(rets) != 1 or not isinstance(rets[0].value, ast.Tuple) or not isinstance(st, ast.Assign) or st.value is not c:
                continue
            uc, utgt, _ = sites[0]
            fmt = fold_fmt(prog, h, cls, uc.args[0])
            if not isinstance(fmt, str) or not isinstance(utgt, (ast.Tuple, ast.List)):
                continue
            ret_names = [norm(x) for x in rets[0].value.elts]
            caller_t = st.targets[0]
            caller_names = list(caller_t.elts) if isinstance(caller_t, (ast.Tuple, ast.List)) else [caller_t]
            if len(caller_names) != len(ret_names):
                continue
            sides: List[Side] = []
            for t in utgt.elts:
                tn = norm(t)
                if tn in ret_names:
                    sides.append(reader_side(prog, fn, cls, caller_names[ret_names.index(tn)]))
                else:
                    sides.append(reader_side(prog, h, cls, t))
            out.append((c.lineno, c.col_offset, (fmt, uc, utgt, h, sides)))
    out.sort(key=lambda x: (x[0], x[1]))
    return [x[2] for x in out]


def analyse_pair(prog: Program, cls: ClassInfo, writer: FuncInfo, pcall: ast.Call, reader: FuncInfo, ucall: ast.Call, utgt: Optional[ast.AST], fmt: str,
                 rsides: Optional[List["Side"]] = None) -> PairResult:
    res = PairResult(cls, writer, reader, fmt)
    items = struct_items(fmt)
    if items is None:
        res.unresolved.append("format not standard-size")
        return res
    vals = [it for it in items if it[0] != "x"]
    pargs = list(pcall.args[1:])
    if any(isinstance(a, ast.Starred) for a in pargs):
        res.unresolved.append("starred pack arguments")
        return res
    if len(pargs) != len(vals):
        res.problems.append(("arity", f"pack has {len(pargs)} arguments for {len(vals)} format items ({fmt})"))
        return res
    res.w = [writer_side(prog, writer, cls, a) for a in pargs]
    if utgt is None or not isinstance(utgt, (ast.Tuple, ast.List)):
        res.unresolved.append("unpack result is not bound to a tuple of targets")
        return res
    tg = list(utgt.elts)
    if any(isinstance(t, ast.Starred) for t in tg):
        res.unresolved.append("starred unpack target")
        return res
    if len(tg) != len(vals):
        res.problems.append(("arity", f"unpack binds {len(tg)} targets for {len(vals)} format items ({fmt})"))
        return res
    res.r = rsides if rsides is not None else [reader_side(prog, reader, cls, t) for t in tg]
    W, R = res.w, res.r
    n = len(vals)
    wname = [(_canon(s.name) if s.kind in ("attr", "len") else None) for s in W]
    rname = [(_canon(s.name) if s.kind in ("attr", "param") else None) for s in R]
    # duplicate source
    for i in range(n):
        for k in range(i + 1, n):
            if W[i].kind in ("attr", "len") and W[k].kind == W[i].kind and W[i].name == W[k].name and rname[i] and rname[k] and rname[i] != rname[k]:
                res.problems.append(("duplicate", f"positions {i} and {k} are both written from self.{W[i].name} but read into `{R[i].name}` and `{R[k].name}`"))
            if rname[i] and rname[i] == rname[k] and wname[i] and wname[k] and wname[i] != wname[k] and R[i].kind == R[k].kind:
                res.problems.append(("duplicate", f"positions {i} and {k} are both read into `{R[i].name}` but written from self.{W[i].name} and self.{W[k].name}"))
    # swap
    for i in range(n):
        if wname[i] and rname[i] and wname[i] != rname[i]:
            for k in range(n):
                if k != i and rname[k] == wname[i] and wname[k] and wname[k] != rname[k]:
                    res.problems.append(("swap", f"position {i} is written from self.{W[i].name} but read into `{R[i].name}`; `{R[k].name}` is read from position {k} which is written from self.{W[k].name}"))
                    break
    # misplaced: the reader takes field F from a position the writer fills with a constant, and skips the position F is written to
    for i in range(n):
        if rname[i] and W[i].kind == "const":
            for k in range(n):
                if k != i and wname[k] == rname[i] and R[k].kind == "ignored":
                    res.problems.append(("misplaced", f"`{R[i].name}` is read from position {i}, which the writer always fills with {W[i].value!r}; the writer puts self.{W[k].name} at position {k}, which the reader skips"))
                    break
    # zero-read
    for i in range(n):
        if W[i].kind == "const" and W[i].value in (0, b"", False) or (W[i].kind == "const" and isinstance(W[i].value, bytes) and not any(W[i].value)):
            if R[i].kind in ("param", "attr", "expr") and not (R[i].kind == "expr" and R[i].text.startswith("_")):
                # a reader may keep a reserved word in an attribute; deriving counts/lengths from it is the defect
                if R[i].kind == "expr" and _derives_size(reader, R[i].text):
                    res.problems.append(("zero-read", f"position {i} is always written as {W[i].value!r} (reserved) but the reader uses it as data (`{R[i].text}`)"))
    # tag
    for i in range(n):
        if W[i].kind == "const" and R[i].kind == "check" and R[i].value is not UNKNOWN and isinstance(R[i].value, (int, bytes, str)):
            wv, rv = W[i].value, R[i].value
            if isinstance(wv, (int, bool)) and isinstance(rv, (int, bool)) and int(wv) != int(rv):
                res.problems.append(("tag", f"position {i} is written as {wv!r} but the reader compares it with {rv!r}"))
            if isinstance(wv, bytes) and isinstance(rv, bytes) and wv != rv:
                res.problems.append(("tag", f"position {i} is written as {wv!r} but the reader compares it with {rv!r}"))
    return res


def class_pairs(prog: Program, cls: ClassInfo) -> List[PairResult]:
    """All (pack, unpack) pairs of methods defined in cls (own methods) that fold to the same format."""
    writers: List[Tuple[FuncInfo, ast.Call, str]] = []
    readers: List[Tuple[FuncInfo, ast.Call, Optional[ast.AST], str]] = []
    for lst in cls.methods.values():
        for f in lst:
            for c in pack_calls(f):
                fmt = fold_fmt(prog, f, cls, c.args[0])
                if isinstance(fmt, str):
                    writers.append((f, c, fmt))
            for c, tgt, _st in unpack_sites(f):
                fmt = fold_fmt(prog, f, cls, c.args[0])
                if isinstance(fmt, str):
                    readers.append((f, c, tgt, fmt))
    out = []
    fmts = {w[2] for w in writers} & {r[3] for r in readers}
    for fmt in sorted(fmts):
        if len(struct_items(fmt) or []) < 2:
            continue
        wfs = []
        for w in writers:
            if w[2] == fmt and w[0] not in wfs:
                wfs.append(w[0])
        rfs = []
        for r in readers:
            if r[3] == fmt and r[0] not in rfs:
                rfs.append(r[0])
        for wf in wfs:
            ws = sorted([w for w in writers if w[0] is wf and w[2] == fmt], key=lambda w: (w[1].lineno, w[1].col_offset))
            for rf in rfs:
                rs = sorted([r for r in readers if r[0] is rf and r[3] == fmt], key=lambda r: (r[1].lineno, r[1].col_offset))
                if len(ws) == len(rs):
                    for w, r in zip(ws, rs):  # k-th pack of this layout <-> k-th unpack of it
                        out.append(analyse_pair(prog, cls, wf, w[1], rf, r[1], r[2], fmt))
                else:
                    for w in ws:
                        for r in rs:
                            pr = analyse_pair(prog, cls, wf, w[1], rf, r[1], r[2], fmt)
                            pr.unresolved.append("ambiguous pairing (several packs/unpacks of one format)")
                            pr.unresolved += [f"{a}: {b}" for a, b in pr.problems]
                            pr.problems = []
                            out.append(pr)
    return out
