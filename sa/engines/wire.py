"""Armed writer/reader pairs on top of PackSym (E1) + generic sweeps."""
from __future__ import annotations

import ast
from typing import List, Optional, Tuple

from ..core import astutil as A
from ..core.loader import AnalysisError
from ..core.symtab import ClassInfo, FuncInfo, struct_items
from . import packsym


def check_pair(ctx, rule: str, relpath: str, cname: str, wname: str, rname: str, min_items: int = 2) -> int:
    """Arm one (class, writer method, reader method) pair. Returns number of layouts compared."""
    prog, chk = ctx.prog, ctx.chk
    cls = ctx.cls(relpath, cname)
    w = prog.find_method(cls, wname)
    r = prog.find_method(cls, rname)
    if w is None or r is None:
        raise AnalysisError(f"{rule}: {cname}.{wname} / {cname}.{rname} not found")
    chk.analysed(w.qual, r.qual)
    nvals = lambda f: len([i for i in (struct_items(f) or []) if i[0] != "x"])  # noqa: E731

    def canon(f: str) -> str:
        its = struct_items(f)
        if its is None or not f or f[0] not in "<>!=":
            return f
        return f[0] + "".join((f"{sz}{code}" if code in "sp" else code) for code, sz in its)
    packs = [(canon(f), c, o) for f, c, o in packsym.writer_layouts(prog, cls, w) if nvals(f) >= min_items]
    unpacks = [(canon(f), c, t, o, sd) for f, c, t, o, sd in packsym.reader_layouts(prog, cls, r) if nvals(f) >= min_items]
    construct = f"{relpath}::{cname} {wname}<->{rname}"
    if not packs or not unpacks:
        raise AnalysisError(f"{rule}: no foldable struct layout with >= {min_items} items in {construct} (writer {len(packs)}, reader {len(unpacks)})")
    n = 0
    wf = [f for f, _c, _o in packs]
    rf = [f for f, _c, _t, _o, _s in unpacks]
    common = [f for f in dict.fromkeys(wf) if f in rf]
    if not common:
        merged = _merge_writer(prog, cls, w, [f for f, _c, _t, _o, _s in unpacks])
        if merged is not None:
            fmt, virt, k = merged
            packs = [(fmt, virt, w)]
            wf = [fmt]
            common = [fmt]
            chk.report(f"{rule}: {construct}: the writer emits the reader's layout {fmt} in several packs" + (f" (a loop of {k} iterations fixed by the layout size)" if k else ""))
    if not common:
        chk.bad(rule, construct, f"writer packs {sorted(set(wf))} but reader unpacks {sorted(set(rf))}", "writer and reader must use the same struct layout", A.loc(relpath, w.node))
        return 0
    for fmt in common:
        ws = [(c, o) for f, c, o in packs if f == fmt]
        rs = [(c, t, o, sd) for f, c, t, o, sd in unpacks if f == fmt]
        if len(ws) != len(rs):
            chk.report(f"{rule}: {construct} layout {fmt}: {len(ws)} pack(s) vs {len(rs)} unpack(s) - ambiguous pairing, first of each compared")
            ws, rs = ws[:1], rs[:1]
        for (pc, wo), (uc, ut, ro, sd) in zip(ws, rs):
            res = packsym.analyse_pair(prog, cls, wo, pc, ro, uc, ut, fmt, sd)
            n += 1
            if res.problems:
                for kind, text in res.problems:
                    chk.bad(rule, f"{construct} [{fmt}]", f"{kind}: {text}", "every position is written from and read into the same field", A.loc(wo.module.relpath, pc))
            elif res.unresolved:
                chk.report(f"{rule}: {construct} [{fmt}] unresolved: {'; '.join(res.unresolved)}")
                chk.ok(rule, f"{construct} [{fmt}]", f"layout shared; positions not comparable ({res.unresolved[0]})", nontrivial=False)
            else:
                named = sum(1 for s in res.w if s.kind in ("attr", "len"))
                chk.ok(rule, f"{construct} [{fmt}] #{n}", f"{len(res.w)} positions: arity ok, no duplicate source, no swap, no zero-read, tags agree ({named} named fields; W={res.w} R={res.r})"[:400])
    return n


def _merge_writer(prog, cls, w, reader_formats):
    """The writer may emit one reader layout in several packs that are concatenated in source order, some of them inside one loop
    (`for word in words: out += pack("<2H", word, 0)`).  Returns (canonical format, virtual pack call, loop count) when the packs,
    with the loop part repeated k times, spell exactly one of the reader's formats."""
    raw = [(f, c, o) for f, c, o in packsym.writer_layouts(prog, cls, w) if o is w and getattr(c, "lineno", None) is not None and isinstance(getattr(c, "_parent", None), ast.AST)]
    raw = [(f, c) for f, c, _o in raw if struct_items(f) is not None and f and f[0] in "<>!="]
    if len(raw) < 2 or len({f[0] for f, _c in raw}) != 1:
        return None
    order = raw[0][0][0]

    def items(f):
        return [(code, sz) for code, sz in (struct_items(f) or [])]

    def in_loop(c):
        return any(isinstance(a, (ast.For, ast.While)) for a in A.ancestors(c) if a is not w.node and not isinstance(a, (ast.FunctionDef, ast.ClassDef)))
    segs = [(items(f), c, in_loop(c)) for f, c in raw]
    for rfmt in reader_formats:
        want = items(rfmt)
        if not want or rfmt[0] != order:
            continue
        for k in ([1] if not any(l for _i, _c, l in segs) else range(1, 65)):
            got, args = [], []
            first_loop = True
            for its, c, l in segs:
                reps = k if l else 1
                if l and not first_loop:
                    reps = 0  # several packs of one loop body are laid out per iteration below
                if l and first_loop:
                    body = [(i2, c2) for i2, c2, l2 in segs if l2]
                    for _ in range(k):
                        for i2, c2 in body:
                            got += i2
                            args += [ast.Name(id="<loop value>", ctx=ast.Load()) for x in i2 if x[0] != "x"]
                    first_loop = False
                    continue
                if reps:
                    got += its
                    args += list(c.args[1:])
            if got == want:
                virt = ast.Call(func=ast.Name(id="pack", ctx=ast.Load()), args=[ast.Constant(value=rfmt)] + args, keywords=[])
                first = raw[0][1]
                ast.copy_location(virt, first)
                for ch in ast.walk(virt):
                    if not hasattr(ch, "_parent"):
                        ch._parent = getattr(first, "_parent", None)  # type: ignore[attr-defined]
                    if not hasattr(ch, "lineno"):
                        ast.copy_location(ch, first)
                return rfmt, virt, (k if any(l for _i, _c, l in segs) else 0)
    return None


def sweep_modules(ctx, rule: str, relpaths: List[str], armed: Optional[set] = None) -> None:
    """Report-only sweep of every pack/unpack class pair in the given modules (thorough tier)."""
    prog = ctx.prog
    for c in prog.classes.values():
        if c.module.relpath not in relpaths:
            continue
        for res in packsym.class_pairs(prog, c):
            key = (c.module.relpath, c.name, res.writer.name, res.reader.name)
            if armed and key in armed:
                continue
            if res.problems:
                ctx.chk.report(f"{rule} (sweep, not armed): {res.name} [{res.fmt}]: " + "; ".join(f"{k}: {t}" for k, t in res.problems))
