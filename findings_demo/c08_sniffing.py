"""Demonstration (runs the real spsdk code) of the three C08 length-sniffing findings.
Run: PYTHONPATH=/repo /venv/bin/python /verif/findings_demo/c08_sniffing.py ; exit 1 = findings reproduce."""
import hashlib
import sys

from cryptography.exceptions import InvalidSignature
from cryptography.hazmat.primitives import hashes
from cryptography.hazmat.primitives.asymmetric import ec, utils

from spsdk.crypto.keys import ECDSASignature, EccCurve, PublicKeyEcc
from spsdk.exceptions import SPSDKValueError

bad = 0
# (a) DER signature whose length (64) is taken for a raw P-256 signature
r = s = 1 << 224  # both valid scalars in [1, n-1], 29 significant bytes
der = utils.encode_dss_signature(r, s)
p = ECDSASignature.parse(der)
print(f"(a) DER length {len(der)}: parsed r == r? {p.r == r}; parsed s == s? {p.s == s}")
bad += (p.r, p.s) != (r, s)
# (b) DER signature of length 66 maps to no curve -> 'not an ECC signature'
der66 = utils.encode_dss_signature(1 << 240, 1 << 224)
try:
    ECDSASignature.parse(der66)
    print("(b) parsed")
except SPSDKValueError as e:
    print(f"(b) DER length {len(der66)}: {e}")
    bad += 1
# (c) a VALID P-256 signature whose DER encoding is 64 bytes long is rejected by verify_signature
P = 0xFFFFFFFF00000001000000000000000000000000FFFFFFFFFFFFFFFFFFFFFFFF
N = 0xFFFFFFFF00000000FFFFFFFFFFFFFFFFBCE6FAADA7179E84F3B9CAC2FC632551
B = 0x5AC635D8AA3A93E7B3EBBD55769886BC651D06B0CC53B0F63BCE3C3E27D2604B
G = (0x6B17D1F2E12C4247F8BCE6E563A440F277037D812DEB33A0F4A13945D898C296, 0x4FE342E2FE1A7F9B8EE7EB4A7C0F9E162BCE33576B315ECECBB6406837BF51F5)


def add(p1, p2):
    if p1 is None:
        return p2
    if p2 is None:
        return p1
    (x1, y1), (x2, y2) = p1, p2
    if x1 == x2 and (y1 + y2) % P == 0:
        return None
    lam = (3 * x1 * x1 - 3) * pow(2 * y1, -1, P) % P if p1 == p2 else (y2 - y1) * pow(x2 - x1, -1, P) % P
    x3 = (lam * lam - x1 - x2) % P
    return x3, (lam * (x1 - x3) - y1) % P


def mul(k, pt):
    acc = None
    while k:
        if k & 1:
            acc = add(acc, pt)
        pt = add(pt, pt)
        k >>= 1
    return acc


msg = b"C08 demo message"
z = int.from_bytes(hashlib.sha256(msg).digest(), "big")
r = 1 << 224
while True:  # smallest r >= 2^224 that is the x coordinate of a curve point
    rhs = (r * r * r - 3 * r + B) % P
    y = pow(rhs, (P + 1) // 4, P)
    if y * y % P == rhs:
        break
    r += 1
s = 1 << 224
Rpt = (r, y)
sR = mul(s, Rpt)
zG = mul(z, G)
Q = mul(pow(r, -1, N), add(sR, (zG[0], (-zG[1]) % P)))
pub = PublicKeyEcc.recreate(Q[0], Q[1], EccCurve.SECP256R1)
der = utils.encode_dss_signature(r, s)
try:
    pub.key.verify(der, msg, ec.ECDSA(hashes.SHA256()))
    independent = True
except InvalidSignature:
    independent = False
raw = r.to_bytes(32, "big") + s.to_bytes(32, "big")
print(f"(c) DER length {len(der)}: cryptography verifies: {independent}; spsdk verify_signature(raw r||s): {pub.verify_signature(raw, msg)}; spsdk verify_signature(DER): {pub.verify_signature(der, msg)}")
bad += independent and not pub.verify_signature(der, msg)
sys.exit(1 if bad else 0)
