"""Known finding C10.short-read: McuBoot._read_data with cmd_exception off returns FEWER bytes than requested with status SUCCESS when
the device ends the data phase early with a SUCCESS final response.  Run in the tree under test (cwd = /repo)."""
import sys, struct
sys.path.insert(0, ".")
from spsdk.mboot.mcuboot import McuBoot
from spsdk.mboot.commands import parse_cmd_response, ResponseTag, CommandTag
from spsdk.mboot.error_codes import StatusCode

def resp(tag, *params):
    return parse_cmd_response(struct.pack(f"<4B{len(params)}I", tag, 0, 0, len(params), *params))

class Iface:
    is_opened = True; need_data_split = True; allow_abort = False
    device = object()
    def __init__(self, script): self.script = list(script)
    def open(self): pass
    def close(self): pass
    def write_command(self, pkt): pass
    def write_data(self, d): pass
    def read(self, length=None): return self.script.pop(0)

script = [resp(ResponseTag.READ_MEMORY.tag, StatusCode.SUCCESS.tag, 8), b"ABCD", resp(ResponseTag.GENERIC.tag, StatusCode.SUCCESS.tag, CommandTag.READ_MEMORY.tag)]
mb = McuBoot(Iface(script), cmd_exception=False)
data = mb.read_memory(0, 8, fast_mode=True)
print(f"requested 8 bytes, got {len(data)} ({data!r}), status_code {mb.status_code} ({StatusCode.get_label(mb.status_code)})")
assert len(data) == 8 or mb.status_code != StatusCode.SUCCESS, "partial data reported as success"
