"""Known finding C19.blob-length: two different 8-byte blobs programmed to IFR give the same 4-byte PROG command.
Run:  cd /repo && /venv/bin/python /verif/findings_demo/c19_blob_length.py   (exits 1 while the defect exists)"""
import logging
import os
import sys

sys.path.insert(0, os.getcwd())
logging.disable(logging.CRITICAL)
from spsdk.sbfile.sb2.sb_21_helper import SB21Helper  # noqa: E402
from spsdk.sbfile.sb2.sly_bd_parser import BDParser  # noqa: E402

SRC = """
options { flags = 0x8; }
sources { }
section (0) { load ifr {{ 00 00 00 00 00 00 00 01 }} > 0x10; load ifr {{ 00 00 00 01 00 00 00 00 }} > 0x10; }
"""
cmds = [SB21Helper()._load(c["load"]).export() for c in BDParser().parse(SRC)["sections"][0]["commands"]]
for c in cmds:
    print(c.hex())
same = cmds[0] == cmds[1]
print("two different blobs -> the same command" if same else "ok: different commands")
sys.exit(1 if same else 0)
