#!/usr/bin/env python3
"""Print a function as the checkers see it (after normalisation / de-refactoring): tools/dumpfn.py <relpath> <qualname> [root]"""
import ast, sys
sys.path.insert(0, "/verif")
from sa.core import loader
rel, qn = sys.argv[1], sys.argv[2]
root = sys.argv[3] if len(sys.argv) > 3 else "/repo"
mi = loader.ModuleInfo(rel, open(f"{root}/{rel}").read())
parts = qn.split(".")
def find(body, parts):
    for st in body:
        if isinstance(st, (ast.FunctionDef, ast.ClassDef, ast.AsyncFunctionDef)) and st.name == parts[0]:
            if len(parts) == 1:
                yield st
            else:
                yield from find(st.body, parts[1:])
for n in find(mi.tree.body, parts):
    print(ast.unparse(n)); print("-----")
