#!/bin/bash
# confirm seeds of finished agents listed in /tmp/seed/done.txt (one property id per line), sequentially
touch /tmp/seed/done.txt /tmp/seed/confirmed.txt
while true; do
  for P in $(cat /tmp/seed/done.txt); do
    for K in 1 2; do
      ID=$(echo $P | tr 'C' 'c')-r4-$K
      grep -q "^$ID " /tmp/seed/confirmed.txt && continue
      WT=/tmp/seed/wt4-$P
      [ -f $WT/_seed/$K/patch.diff ] || { echo "$ID MISSING" >> /tmp/seed/confirmed.txt; continue; }
      [ -f $WT/_seed/$K/notes.md ] || echo "(no notes)" > $WT/_seed/$K/notes.md
      R=$(/verif/tools/confirm_seed.sh $WT $K $ID $P 2>&1 | grep -v WARNING | tr '\n' ' ')
      echo "$ID $R" >> /tmp/seed/confirmed.txt
    done
  done
  [ -f /tmp/seed/stop ] && exit 0
  sleep 20
done
