#!/bin/bash
# stage_benign.sh Cxx : copy _benign/{1,2,3} of the finished agent into /verif/benign/cxx-benign4-k (pending suite confirmation)
P=$1; p=$(echo $P | tr 'C' 'c')
for K in 1 2 3; do
  S=/tmp/seed/wt4-$P/_benign/$K
  [ -f $S/patch.diff ] || { echo "missing $S"; continue; }
  D=/verif/benign/$p-benign4-$K; mkdir -p $D
  cp $S/patch.diff $D/; cp $S/notes.md $D/ 2>/dev/null || echo "(no notes)" > $D/notes.md
  cat > $D/meta.json <<J
{
 "property": "$P",
 "kind": "behaviour-preserving refactoring",
 "origin": "independent sub-agent given only the property text, a list of source locations and its own scratch worktree (fourth round: steered to the functions behind the rules added in session 4)",
 "confirmed": {
  "pinned_suite_with_patch": "pending"
 },
 "expected": "every check stays silent (exit 0)"
}
J
done
