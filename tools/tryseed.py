#!/venv/bin/python
"""tryseed.py <Cxx> <patch.diff> [more props]: run the property's quick check on the patch as an in-memory overlay (triage helper)."""
import sys, os
sys.path.insert(0, os.path.dirname(os.path.dirname(os.path.abspath(__file__))))
from sa.regress import _one
prop, patch = sys.argv[1:3]
for p in [prop] + sys.argv[3:]:
    kind, name, pr, rc, info = _one(("seeded", os.path.basename(os.path.dirname(patch)), p, patch, "/repo"))
    print(f"{p} {patch.split('/')[-3]}/{patch.split('/')[-2]} rc={rc} {info[:300]}")
