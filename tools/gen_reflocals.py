#!/venv/bin/python
"""Regenerate sa/reference/locals.json (structural signatures of every function's locals) from /repo's current tree.
Run only when the reference tree changes on purpose (e.g. after a fix commit in /repo)."""
import ast, json, os, sys
sys.path.insert(0, os.path.join(os.path.dirname(os.path.abspath(__file__)), ".."))
os.environ["VERIF_NO_RESTORE_LOCALS"] = "1"
from sa.core import reflocals
from sa.core.loader import Repo

root = sys.argv[1] if len(sys.argv) > 1 else "/repo"
repo = Repo(root)
out = {}
for rp in repo.iter_py("spsdk"):
    try:
        m = repo.module(rp)
    except Exception as e:  # noqa
        print("skip", rp, e)
        continue
    t = reflocals.table_for(m.tree)
    from sa.core import derefactor
    t.update(derefactor.reference_names(m.tree))
    t["__digest__"] = m.digest
    out[rp] = t
json.dump(out, open(reflocals.REF_PATH, "w"), sort_keys=True, separators=(",", ":"))
print(len(out), "modules,", sum(len(v) for v in out.values()), "functions,", sum(len(x) for v in out.values() for x in v.values() if isinstance(x, dict)), "locals ->", reflocals.REF_PATH, os.path.getsize(reflocals.REF_PATH), "bytes")
