#!/venv/bin/python
"""Run the pinned suite (-n 16) on a tree and compare with BASELINE.stable_pass.
usage: suite_check.py [repo_dir] -> prints 'SUITE ok passed=N missing=0' or the missing ids."""
import json, subprocess, sys, tempfile, os, xml.etree.ElementTree as ET
repo = sys.argv[1] if len(sys.argv) > 1 else "/repo"
base = json.load(open("/root/.vp/BASELINE.json"))
want = set(base["stable_pass"])
fd, junit = tempfile.mkstemp(suffix=".xml"); os.close(fd)
cmd = ["/venv/bin/python", "-m", "pytest", "-q", "-p", "no:cacheprovider", "--timeout=900",
       "--continue-on-collection-errors", "-n", "16", f"--junitxml={junit}"]
r = subprocess.run(cmd, cwd=repo, capture_output=True, text=True)
passed = set()
for tc in ET.parse(junit).getroot().iter("testcase"):
    bad = any(c.tag in ("failure", "error", "skipped") for c in tc)
    if not bad:
        passed.add(f"{tc.get('classname')}::{tc.get('name')}")
os.remove(junit)
missing = sorted(want - passed)
print(f"SUITE {'ok' if not missing else 'FAIL'} passed={len(passed & want)} of {len(want)} missing={len(missing)}")
for m in missing[:40]:
    print("  MISSING", m)
print(r.stdout.strip().splitlines()[-1] if r.stdout.strip() else "")
sys.exit(0 if not missing else 1)
