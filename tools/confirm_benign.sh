#!/bin/bash
# usage: confirm_benign.sh <worktree> <k> <benign-id> <property>
# confirms that the pinned suite still passes with the behaviour-preserving patch, then stores it under /verif/benign/<id>/
set -u
WT=$1; K=$2; ID=$3; PROP=$4
cd "$WT" || exit 9
git checkout -q -- . ;
[ -f spsdk/__version__.py ] || cp /repo/spsdk/__version__.py spsdk/__version__.py
git apply _benign/$K/patch.diff || { echo "PATCH FAILED $ID"; exit 8; }
/verif/tools/suite_check.py "$WT" > /tmp/confirmb_$ID.suite.log 2>&1; RC_SUITE=$?
git checkout -q -- .
echo "benign=$ID suite_rc=$RC_SUITE $(head -1 /tmp/confirmb_$ID.suite.log)"
if [ $RC_SUITE -eq 0 ]; then
  mkdir -p /verif/benign/$ID
  cp _benign/$K/patch.diff _benign/$K/notes.md /verif/benign/$ID/
  /venv/bin/python - "$ID" "$PROP" <<PY
import json,sys
i,p=sys.argv[1:3]
json.dump({"property":p,"kind":"behaviour-preserving refactoring","origin":"independent sub-agent asked for realistic maintainer clean-ups of the code behind the property (it saw only the property text and a scratch worktree)",
 "confirmed":{"pinned_suite_with_patch":"2851/2851 stable tests pass (tools/suite_check.py)"},"expected":"every check stays silent (exit 0)"},open(f'/verif/benign/{i}/meta.json','w'),indent=1)
PY
  echo "KEPT /verif/benign/$ID"
else
  echo "REJECTED $ID"
fi
