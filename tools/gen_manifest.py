#!/venv/bin/python
"""Regenerates /verif/MANIFEST.json from sa/props/*.py (MANIFEST dict in each built module)."""
import importlib, json, os, sys
V = os.path.dirname(os.path.dirname(os.path.abspath(__file__)))
sys.path.insert(0, V)
ids = [json.loads(l)["id"] for l in open(os.path.join(V, "properties.jsonl"))]
NA = json.load(open(os.path.join(V, "tools", "not_applicable.json")))
checks, na, engines = [], [], {}
for i in ids:
    try:
        m = importlib.import_module(f"sa.props.{i.lower()}")
        info = m.MANIFEST
    except (ModuleNotFoundError, AttributeError):
        na.append({"property_id": i, "reason": NA.get(i, "check not built yet (implementation in progress, see DESIGN.md section 8)")})
        continue
    checks.append({
        "property_id": i,
        "quick_cmd": f"./check {i} --tier quick",
        "thorough_cmd": f"./check {i} --tier thorough",
        "evidence_file": f"/verif/evidence/{i}.json",
        "replay_cmd_template": f"./check {i} --replay {{path}}",
        "engine": "sa",
        "level_claimed": {"category": "other", "text": info["level"], "design_ref": f"DESIGN.md section 3 {i}"},
        "level_note": info["note"],
        "technique": info["technique"],
    })
man = {
    "version": 1,
    "setup_cmd": "/venv/bin/python -c \"import ast, yaml, json; print('static-analysis framework needs no build: stdlib ast + PyYAML from the repository venv')\"",
    "hooks": {"guard": "SPSDK_VERIF", "enable": "no hooks: the static checks parse /repo's working tree and never import or run spsdk; the guard name is reserved and unused",
              "baseline_off_cmd": "cd /repo && /venv/bin/python -m pytest -ra -q -p no:cacheprovider --timeout=900 --continue-on-collection-errors",
              "source_commits": [], "add_only": True},
    "engines": [{"name": "sa", "path": "/verif/sa", "serves_properties": [c["property_id"] for c in checks],
                 "kind_free_text": "repository-specific static analysis over the stdlib ast of /repo's working tree and the device database (YAML/JSON): "
                                   "order-type decision of guards, bit-provenance abstract interpretation, regex automata, writer/reader struct symmetry, "
                                   "must-check dominance, purity/freshness dataflow, exception-cover and lock-discipline rules, key-flow, data lint"}],
    "checks": checks,
    "notes": "All checks are static (no spsdk code is imported or executed). Exit 0 held / 1 VIOLATION / 2 ANALYSIS-ERROR (anchor vanished; fail-closed). "
             "Findings are keyed by rule+construct+normalised text (known_findings.json). ./check --regress replays stored defect re-introductions, seeded breaking changes and benign refactors as overlays.",
    "not_applicable": na,
}
json.dump(man, open(os.path.join(V, "MANIFEST.json"), "w"), indent=1)
print("checks:", [c["property_id"] for c in checks], "n/a:", [n["property_id"] for n in na])
