#!/venv/bin/python
"""tryedit.py <props,comma> <relfile> <old> <new> [count]: apply a textual replacement as an in-memory overlay and run quick checks.
Triage helper only (nothing in MANIFEST refers to it)."""
import sys, os, io, contextlib
sys.path.insert(0, os.path.dirname(os.path.dirname(os.path.abspath(__file__))))
from sa.cli import run_prop
props, rel, old, new = sys.argv[1:5]
src = open(os.path.join("/repo", rel), encoding="utf-8").read()
n = src.count(old)
if n != 1 and len(sys.argv) < 6:
    print(f"old text occurs {n} times"); sys.exit(9)
text = src.replace(old, new, 1)
compile(text, rel, "exec")
for p in props.split(","):
    buf = io.StringIO()
    with contextlib.redirect_stdout(buf), contextlib.redirect_stderr(buf):
        try:
            rc = run_prop(p, "quick", "/repo", overlays={rel: text}, write=False, quiet=True)
        except SystemExit as exc:
            rc = int(exc.code or 0)
    lines = [l for l in buf.getvalue().splitlines() if l.startswith(("  rule=", "ANALYSIS-ERROR", "VIOLATION"))]
    print(p, "rc=", rc, *[l[:230] for l in lines[:4]], sep="\n   " if lines else " ")
