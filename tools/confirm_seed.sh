#!/bin/bash
# usage: confirm_seed.sh <worktree> <k> <seed-id> <property>
# confirms: demo passes on clean tree, fails with patch, pinned suite still passes with patch; then stores under /verif/seeded/<seed-id>/
set -u
WT=$1; K=$2; ID=$3; PROP=$4
cd "$WT" || exit 9
git checkout -q -- . ; 
[ -f spsdk/__version__.py ] || cp /repo/spsdk/__version__.py spsdk/__version__.py
/venv/bin/python _seed/$K/demo.py > /tmp/confirm_$ID.clean.log 2>&1; RC_CLEAN=$?
git apply _seed/$K/patch.diff || { echo "PATCH FAILED"; exit 8; }
/venv/bin/python _seed/$K/demo.py > /tmp/confirm_$ID.patched.log 2>&1; RC_PATCHED=$?
/verif/tools/suite_check.py "$WT" > /tmp/confirm_$ID.suite.log 2>&1; RC_SUITE=$?
git checkout -q -- .
echo "seed=$ID clean_demo_rc=$RC_CLEAN patched_demo_rc=$RC_PATCHED suite_rc=$RC_SUITE $(head -1 /tmp/confirm_$ID.suite.log)"
if [ $RC_CLEAN -eq 0 ] && [ $RC_PATCHED -ne 0 ] && [ $RC_SUITE -eq 0 ]; then
  mkdir -p /verif/seeded/$ID
  cp _seed/$K/patch.diff _seed/$K/demo.py _seed/$K/notes.md /verif/seeded/$ID/
  /venv/bin/python - "$ID" "$PROP" "$RC_PATCHED" <<PY
import json,sys
i,p,rc=sys.argv[1:4]
notes=open(f'/verif/seeded/{i}/notes.md').read()
json.dump({"property":p,"origin":"independent sub-agent given only the property text and a scratch worktree",
 "needs_to_manifest":"see notes.md","confirmed":{"demo_on_clean_tree_rc":0,"demo_with_patch_rc":int(rc),"pinned_suite_with_patch":"2851/2851 stable tests pass (tools/suite_check.py)"},
 "ran":["demo.py on clean worktree","git apply patch.diff; demo.py","tools/suite_check.py <worktree> (pytest -n 16, compared with BASELINE.stable_pass)"]},open(f'/verif/seeded/{i}/meta.json','w'),indent=1)
PY
  echo "KEPT /verif/seeded/$ID"
else
  echo "REJECTED $ID"; tail -5 /tmp/confirm_$ID.patched.log
fi
