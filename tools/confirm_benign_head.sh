#!/bin/bash
# usage: confirm_benign_head.sh <benign-id>...
# Applies /verif/benign/<id>/patch.diff to a scratch worktree of /repo's HEAD, runs the pinned suite, records the result in meta.json.
set -u
WT=/tmp/confirm-head-wt
git -C /repo worktree remove --force $WT 2>/dev/null
git -C /repo worktree add -q --detach $WT HEAD || exit 9
cp /repo/spsdk/__version__.py $WT/spsdk/__version__.py
HEAD=$(git -C /repo rev-parse --short HEAD)
for ID in "$@"; do
  cd $WT
  git checkout -q -- .
  if ! git apply /verif/benign/$ID/patch.diff; then echo "PATCH FAILED $ID"; continue; fi
  /verif/tools/suite_check.py $WT > /tmp/confirmh_$ID.suite.log 2>&1; RC=$?
  git checkout -q -- .
  echo "benign=$ID suite_rc=$RC $(head -1 /tmp/confirmh_$ID.suite.log)"
  if [ $RC -eq 0 ]; then
    /venv/bin/python - "$ID" "$HEAD" <<'PY'
import json,sys
i,h=sys.argv[1:3]
p=f'/verif/benign/{i}/meta.json'
m=json.load(open(p))
m["confirmed"]={"pinned_suite_with_patch":f"2851/2851 stable tests pass on /repo {h} + patch (tools/confirm_benign_head.sh)"}
json.dump(m,open(p,'w'),indent=1)
PY
    echo "KEPT $ID"
  else
    echo "REJECTED $ID"
  fi
done
cd /; git -C /repo worktree remove --force $WT
echo ALLDONE
