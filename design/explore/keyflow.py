import ast
t=ast.parse(open('/repo/spsdk/image/mbi/mbi_mixin.py').read())
def keys_read(fn):
    ks=set()
    for n in ast.walk(fn):
        if isinstance(n,ast.Subscript) and isinstance(n.value,ast.Name) and n.value.id=='config' and isinstance(n.slice,ast.Constant) and isinstance(n.ctx,ast.Load): ks.add(n.slice.value)
        if isinstance(n,ast.Call) and isinstance(n.func,ast.Attribute) and n.func.attr=='get' and isinstance(n.func.value,ast.Name) and n.func.value.id=='config' and n.args and isinstance(n.args[0],ast.Constant): ks.add(n.args[0].value)
        if isinstance(n,ast.Compare) and isinstance(n.left,ast.Constant) and any(isinstance(o,ast.In) for o in n.ops): ks.add(n.left.value)
    return ks
def keys_written(fn):
    ks=set()
    for n in ast.walk(fn):
        if isinstance(n,ast.Subscript) and isinstance(n.value,ast.Name) and n.value.id=='config' and isinstance(n.slice,ast.Constant) and isinstance(n.ctx,ast.Store): ks.add(n.slice.value)
    return ks
for c in t.body:
    if isinstance(c,ast.ClassDef):
        fns={f.name:f for f in c.body if isinstance(f,ast.FunctionDef)}
        r=keys_read(fns['mix_load_from_config']) if 'mix_load_from_config' in fns else None
        w=keys_written(fns['mix_get_config']) if 'mix_get_config' in fns else None
        if r is not None or w is not None:
            print(c.name,'READ',sorted(r or []),'WRITE',sorted(w or []), 'ONLY-READ',sorted((r or set())-(w or set())),'ONLY-WRITTEN',sorted((w or set())-(r or set())))
