import ast,sys
src=open('/repo/spsdk/mboot/mcuboot.py').read(); t=ast.parse(src)
cls=[n for n in t.body if isinstance(n,ast.ClassDef) and n.name=='McuBoot'][0]
pat={}
for f in cls.body:
    if not isinstance(f,ast.FunctionDef): continue
    calls=[c for c in ast.walk(f) if isinstance(c,ast.Call) and isinstance(c.func,ast.Attribute) and c.func.attr=='_process_cmd']
    if not calls: continue
    # classify usage context of each call
    kinds=[]
    for c in calls:
        # find parent
        parent=None
        for n in ast.walk(f):
            for ch in ast.iter_child_nodes(n):
                if ch is c: parent=n
        kinds.append(type(parent).__name__+':'+ast.unparse(parent)[:70].replace('\n',' '))
    sd=[c.func.attr for c in ast.walk(f) if isinstance(c,ast.Call) and isinstance(c.func,ast.Attribute) and c.func.attr in('_send_data','_read_data')]
    print(f.name, '|', kinds, '|', sd)
