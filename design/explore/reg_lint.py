import json,glob,os,collections
def toint(v):
    if isinstance(v,int): return v
    return int(str(v).replace('_',''),0)
stats=collections.Counter()
for f in sorted(glob.glob('/repo/spsdk/data/devices/*/*.json')+glob.glob('/repo/spsdk/data/common/**/*.json',recursive=True)):
    try: d=json.load(open(f))
    except Exception as e: print('BADJSON',f,e); continue
    if 'groups' not in d: stats['nogroups']+=1; continue
    stats['files']+=1
    names=collections.Counter(); uids=collections.Counter(); regs=[]
    for g in d['groups']:
        for r in g.get('registers',[]):
            stats['regs']+=1
            w=toint(r.get('reg_width',32)); off=toint(r.get('offset_int',0))
            names[r.get('name')]+=1; uids[r.get('id')]+=1
            regs.append((off,w,r.get('name')))
            bw=sum(toint(b.get('width',0)) for b in r.get('bitfields',[]))
            if bw>w: print('BITS>W',os.path.relpath(f,'/repo/spsdk/data'),r.get('name'),bw,w); stats['bitover']+=1
            bn=collections.Counter(b.get('name') for b in r.get('bitfields',[]) if b.get('name'))
            for k,v in bn.items():
                if v>1: stats['dupbf']+=1; print('DUPBF',os.path.relpath(f,'/repo/spsdk/data'),r.get('name'),k)
            for b in r.get('bitfields',[]):
                bwid=toint(b.get('width',0))
                for e in b.get('values',[]):
                    try:
                        ev=toint(e.get('value'))
                        if ev>=1<<bwid: stats['enumover']+=1; print('ENUM>W',os.path.basename(f),r.get('name'),b.get('name'),e.get('name'),ev,bwid)
                    except Exception as ex: stats['enumparse']+=1
    for k,v in names.items():
        if v>1: stats['dupname']+=1
    for k,v in uids.items():
        if v>1 and k: stats['dupuid']+=1; print('DUPUID',f,k)
print(stats)
