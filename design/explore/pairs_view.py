import ast,sys
sys.argv=['x']; 
exec(open('/tmp/explore/packsym_proto.py').read().split("res=[]")[0])
want=sys.stdin.read().split()
for cname in want:
    m,c=classes[cname]
    print('='*100); print(m,cname)
    for fn_ in c.body:
        if not isinstance(fn_,ast.FunctionDef): continue
        for n in ast.walk(fn_):
            if isinstance(n,ast.Call):
                nm=n.func.attr if isinstance(n.func,ast.Attribute) else (n.func.id if isinstance(n.func,ast.Name) else '')
                if nm=='pack' and n.args:
                    print('  PACK in',fn_.name,'fmt=',fold(n.args[0],cname)); print('     ',[ast.unparse(a) for a in n.args[1:]])
            if isinstance(n,ast.Assign) and isinstance(n.value,ast.Call):
                cl=n.value; nm=cl.func.attr if isinstance(cl.func,ast.Attribute) else (cl.func.id if isinstance(cl.func,ast.Name) else '')
                if nm in('unpack','unpack_from'):
                    print('  UNPACK in',fn_.name,'fmt=',fold(cl.args[0],cname),'src=',[ast.unparse(a) for a in cl.args[1:]]); print('     ',ast.unparse(n.targets[0]))
        if fn_.name in('parse','_parse','from_bytes','_parse_manifest','parse_payload'):
            for n in ast.walk(fn_):
                if isinstance(n,ast.Call) and isinstance(n.func,ast.Name) and n.func.id in('cls',cname):
                    print('  CTOR in',fn_.name,':',ast.unparse(n).replace('\n',' ')[:300])
                if isinstance(n,ast.Assign) and isinstance(n.targets[0],ast.Attribute) and isinstance(n.targets[0].value,ast.Name) and n.targets[0].value.id in('obj','ret','result','container','parsed'):
                    print('     SET',ast.unparse(n)[:120])
