import yaml,glob,json,os,ast,copy
base='/repo/spsdk/data/devices'
def deep_update(d,u):
    for k,v in u.items():
        if isinstance(v,dict): d[k]=deep_update(d.get(k,{}) if isinstance(d.get(k),dict) else {},v)
        else: d[k]=v
    return d
defs=yaml.safe_load(open('/repo/spsdk/data/common/database_defaults.yaml'))
raw={os.path.basename(os.path.dirname(f)):yaml.safe_load(open(f)) for f in glob.glob(base+'/*/database.yaml')}
def load(dev):
    cfg=raw[dev]
    if cfg.get('alias'):
        revs,latest=load(cfg['alias']); revs=copy.deepcopy(revs)
        if cfg.get('features'):
            for r in revs.values(): deep_update(r,copy.deepcopy(cfg['features']))
        for rn,ru in (cfg.get('revisions') or {}).items():
            if rn not in revs: revs[rn]=copy.deepcopy(revs[ru['alias']])
            if ru and ru.get('features'): deep_update(revs[rn],copy.deepcopy(ru['features']))
        return revs,cfg.get('latest',latest)
    feats=copy.deepcopy(cfg['features'])
    for fn in list(feats):
        fd=copy.deepcopy(defs['features'].get(fn,{})); deep_update(fd,feats[fn] or {}); feats[fn]=fd
    revs={}
    for rn,ru in cfg['revisions'].items():
        f=copy.deepcopy(feats)
        if ru and ru.get('features'): deep_update(f,copy.deepcopy(ru['features']))
        revs[rn]=f
    return revs,cfg['latest']
def find(dev,fn):
    p=os.path.join(base,dev,fn)
    if os.path.exists(p): return p
    if raw[dev].get('alias'): return find(raw[dev]['alias'],fn)
    return None
# pfr methods
t=ast.parse(open('/repo/spsdk/pfr/pfr.py').read())
methods={f.name for c in t.body if isinstance(c,ast.ClassDef) for f in c.body if isinstance(f,ast.FunctionDef)}
def toint(v): return v if isinstance(v,int) else int(str(v).replace('_',''),0)
bad=0; n=0
def walk(dev,rev,node,path):
    global bad,n
    if not isinstance(node,dict): return
    if 'reg_spec' in node and isinstance(node['reg_spec'],str) and node['reg_spec'].endswith('.json'):
        p=find(dev,node['reg_spec'])
        if not p: print('NOFILE',dev,rev,path,node['reg_spec']); bad+=1; return
        spec=json.load(open(p)); regs={}
        for g in spec.get('groups',[]):
            for r in g.get('registers',[]):
                regs[r.get('id')]=r
        n+=1
        for ruid,bfs in (node.get('computed_fields') or {}).items():
            if ruid not in regs: print('CF-REG',dev,rev,path,ruid); bad+=1; continue
            bfids={b.get('id') for b in regs[ruid].get('bitfields',[])}
            for bid,meth in bfs.items():
                if bid not in bfids: print('CF-BF',dev,rev,path,ruid,bid); bad+=1
                if meth not in methods: print('CF-METH',dev,rev,path,meth); bad+=1
        for grp in (node.get('grouped_registers') or []):
            subs=grp.get('sub_regs',[])
            miss=[x for x in subs if x not in regs]
            if miss: print('GRP-MISS',dev,rev,path,grp.get('uid'),miss); bad+=1; continue
            ws={toint(regs[x].get('reg_width',32)) for x in subs}
            if len(ws)!=1: print('GRP-WIDTH',dev,rev,path,grp.get('uid'),ws); bad+=1
            if 'width' in grp and toint(grp['width'])<sum(toint(regs[x].get('reg_width',32)) for x in subs): print('GRP-OVER',dev,rev,path,grp.get('uid')); bad+=1
        if node.get('seal_start'):
            if node['seal_start'] not in regs: print('SEAL',dev,rev,path,node['seal_start']); bad+=1
            else:
                off=toint(regs[node['seal_start']].get('offset_int',0)); cnt=toint(node.get('seal_count',0)); size=toint(node.get('size',512))
                if off+4*cnt>size: print('SEAL-EXT',dev,rev,path,off,cnt,size); bad+=1
    for k,v in node.items():
        if isinstance(v,dict): walk(dev,rev,v,path+(k,))
for dev in sorted(raw):
    try: revs,latest=load(dev)
    except Exception as e: print('LOADERR',dev,e); continue
    for rev,feats in revs.items(): walk(dev,rev,feats,())
print('areas',n,'bad',bad)
