import ast,sys,os,collections
root='/repo/spsdk'
def fname(n):
    if isinstance(n,ast.Name): return n.id
    if isinstance(n,ast.Attribute): return fname(n.value)+'.'+n.attr
    return '?'
rows=[]
for dp,dn,fn in os.walk(root):
    for f in fn:
        if not f.endswith('.py'): continue
        p=os.path.join(dp,f)
        t=ast.parse(open(p).read())
        for cls in [n for n in ast.walk(t) if isinstance(n,ast.ClassDef)]:
            packs=[];unpacks=[]
            for fn_ in [n for n in cls.body if isinstance(n,(ast.FunctionDef,))]:
                for c in ast.walk(fn_):
                    if isinstance(c,ast.Call):
                        nm=fname(c.func)
                        if nm.split('.')[-1]=='pack' and c.args:
                            packs.append((fn_.name,ast.unparse(c.args[0])[:40],len(c.args)-1))
                        if nm.split('.')[-1] in('unpack','unpack_from') and c.args:
                            unpacks.append((fn_.name,ast.unparse(c.args[0])[:40]))
            if packs or unpacks:
                rows.append((os.path.relpath(p,root),cls.name,packs,unpacks))
n_both=0
for r in rows:
    if r[2] and r[3]: n_both+=1
print(len(rows),'classes with pack/unpack;',n_both,'with both')
for r in rows:
    if r[2] and r[3]:
        print(r[0],r[1]); print('   P',r[2][:6]); print('   U',r[3][:6])
