import ast
src=open('/repo/spsdk/utils/registers.py').read(); t=ast.parse(src)
MUT={'append','extend','insert','sort','clear','remove','pop','update','reverse','add','discard','setdefault'}
def selfattr(e):
    # returns attr chain string if rooted at self
    parts=[]
    while isinstance(e,(ast.Attribute,ast.Subscript)):
        if isinstance(e,ast.Attribute): parts.append(e.attr)
        e=e.value
    if isinstance(e,ast.Name) and e.id=='self': return 'self.'+'.'.join(reversed(parts))
    return None
for c in [n for n in t.body if isinstance(n,ast.ClassDef)]:
    summ={}
    for f in [n for n in c.body if isinstance(n,ast.FunctionDef)]:
        alias={}  # local -> self attr
        muts=[]; calls=[]
        for n in ast.walk(f):
            if isinstance(n,ast.Assign):
                for tg in n.targets:
                    if isinstance(tg,ast.Name):
                        for sub in ast.walk(n.value):
                            sa=selfattr(sub) if isinstance(sub,(ast.Attribute)) else None
                            if sa and not isinstance(n.value,ast.Call): alias[tg.id]=sa
                        if isinstance(n.value,ast.Attribute) and selfattr(n.value): alias[tg.id]=selfattr(n.value)
                        if isinstance(n.value,ast.IfExp):
                            for br in (n.value.body,n.value.orelse):
                                if isinstance(br,ast.Attribute) and selfattr(br): alias[tg.id]=selfattr(br)
                    sa=selfattr(tg)
                    if sa: muts.append(('store',sa,n.lineno))
            if isinstance(n,ast.AugAssign):
                sa=selfattr(n.target)
                if sa: muts.append(('aug',sa,n.lineno))
        for n in ast.walk(f):
            if isinstance(n,ast.Call) and isinstance(n.func,ast.Attribute):
                if n.func.attr in MUT:
                    recv=n.func.value
                    sa=selfattr(recv)
                    if sa: muts.append(('call.'+n.func.attr,sa,n.lineno))
                    elif isinstance(recv,ast.Name) and recv.id in alias: muts.append(('aliascall.'+n.func.attr,alias[recv.id],n.lineno))
                if isinstance(n.func.value,ast.Name) and n.func.value.id=='self': calls.append(n.func.attr)
        summ[f.name]=(muts,calls)
    for name,(muts,calls) in summ.items():
        if name.startswith(('get_','find_','has_','__len__','__iter__','__eq__','__str__','__repr__','image_info','export','create_spec','_get_uid')) and muts:
            print(c.name,name,muts)
