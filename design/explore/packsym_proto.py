import ast,os,re,struct,sys
root='/repo/spsdk'
mods={}
for dp,dn,fn in os.walk(root):
    for f in fn:
        if f.endswith('.py'):
            p=os.path.join(dp,f); mods[os.path.relpath(p,root)]=ast.parse(open(p).read())
# global const table (module-level simple string consts) e.g. LITTLE_ENDIAN, UINT8
gconst={}
for m,t in mods.items():
    for n in t.body:
        if isinstance(n,ast.Assign) and len(n.targets)==1 and isinstance(n.targets[0],ast.Name) and isinstance(n.value,ast.Constant) and isinstance(n.value.value,str):
            gconst.setdefault(n.targets[0].id,n.value.value)
classes={}
for m,t in mods.items():
    for n in ast.walk(t):
        if isinstance(n,ast.ClassDef): classes.setdefault(n.name,(m,n))
def cls_consts(c):
    d={}
    for n in c.body:
        if isinstance(n,ast.Assign) and len(n.targets)==1 and isinstance(n.targets[0],ast.Name):
            d[n.targets[0].id]=n.value
    return d
def bases(c): return [b.id if isinstance(b,ast.Name) else (b.attr if isinstance(b,ast.Attribute) else None) for b in c.bases]
def mro(cname,seen=None):
    out=[]; 
    if cname not in classes: return out
    out.append(cname)
    for b in bases(classes[cname][1]):
        if b and b in classes and b not in out: out+= [x for x in mro(b) if x not in out]
    return out
def find_method(cname,meth,skip_first=False):
    ms=mro(cname)
    if skip_first: ms=ms[1:]
    for c in ms:
        for n in classes[c][1].body:
            if isinstance(n,ast.FunctionDef) and n.name==meth: return c,n
    return None,None
def fold(e,cname,depth=0):
    if depth>8: return None
    if isinstance(e,ast.Constant) and isinstance(e.value,str): return e.value
    if isinstance(e,ast.Name): return gconst.get(e.id)
    if isinstance(e,ast.BinOp) and isinstance(e.op,ast.Add):
        a=fold(e.left,cname,depth+1); b=fold(e.right,cname,depth+1)
        return a+b if a is not None and b is not None else None
    if isinstance(e,ast.Attribute) and isinstance(e.value,ast.Name) and e.value.id in('self','cls') or (isinstance(e,ast.Attribute) and isinstance(e.value,ast.Name) and e.value.id in classes):
        owner=cname if e.value.id in('self','cls') else e.value.id
        for c in mro(owner):
            cc=cls_consts(classes[c][1])
            if e.attr in cc: return fold(cc[e.attr],c,depth+1)
        return None
    if isinstance(e,ast.Call):
        f=e.func
        # self.format() / cls.format() / super().format() / X.format()
        if isinstance(f,ast.Attribute) and not e.args:
            if isinstance(f.value,ast.Name) and f.value.id in('self','cls'):
                c,m=find_method(cname,f.attr)
            elif isinstance(f.value,ast.Name) and f.value.id in classes:
                c,m=find_method(f.value.id,f.attr)
            elif isinstance(f.value,ast.Call) and isinstance(f.value.func,ast.Name) and f.value.func.id=='super':
                c,m=find_method(cname,f.attr,skip_first=True)
            else: return None
            if m is None: return None
            rets=[s for s in ast.walk(m) if isinstance(s,ast.Return)]
            if len(rets)!=1: return None
            return fold(rets[0].value,c,depth+1)
    if isinstance(e,ast.JoinedStr):
        out=''
        for v in e.values:
            if isinstance(v,ast.Constant): out+=v.value
            else: out+='{'+ast.unparse(v.value)+'}'
        return out
    return None
def nitems(fmt):
    if '{' in fmt: return None
    try:
        n=0
        for cnt,ch in re.findall(r'(\d*)([xcbB?hHiIlLqQnNefdspP])',fmt.lstrip('<>=!@')):
            if ch=='x': continue
            if ch in 'sp': n+=1
            else: n+=int(cnt) if cnt else 1
        return n
    except Exception: return None
def root_of(e):
    s=ast.unparse(e)
    return s
res=[]
for cname,(m,c) in sorted(classes.items(), key=lambda x:x[1][0]):
    packs=[];unpacks=[]
    for fn_ in c.body:
        if not isinstance(fn_,ast.FunctionDef): continue
        for n in ast.walk(fn_):
            if isinstance(n,ast.Call):
                nm=n.func.attr if isinstance(n.func,ast.Attribute) else (n.func.id if isinstance(n.func,ast.Name) else '')
                if nm=='pack' and n.args: packs.append((fn_.name,n))
            if isinstance(n,ast.Assign) and isinstance(n.value,ast.Call):
                cl=n.value; nm=cl.func.attr if isinstance(cl.func,ast.Attribute) else (cl.func.id if isinstance(cl.func,ast.Name) else '')
                if nm in('unpack','unpack_from') and cl.args and isinstance(n.targets[0],ast.Tuple):
                    unpacks.append((fn_.name,cl,n.targets[0]))
    for pf,pc in packs:
        pfmt=fold(pc.args[0],cname)
        for uf,uc,ut in unpacks:
            ufmt=fold(uc.args[0],cname)
            if pfmt is None or ufmt is None: continue
            if pfmt!=ufmt: continue
            pargs=pc.args[1:]; tg=ut.elts
            if any(isinstance(a,ast.Starred) for a in pargs): continue
            status='OK'
            notes=[]
            if len(pargs)!=len(tg): status='ARITY'; 
            else:
                for i,(a,t) in enumerate(zip(pargs,tg)):
                    ts=ast.unparse(t).split('.')[-1].lstrip('_'); as_=ast.unparse(a)
                    if ts=='' or ts=='_' : continue
                    toks=set(re.findall(r'[a-z0-9]+',ts.lower()))
                    atoks=set(re.findall(r'[a-z0-9]+',as_.lower()))
                    if not (toks & atoks): notes.append((i,as_,ast.unparse(t)))
            res.append((m,cname,pf,uf,pfmt,status,notes))
ok=0
for r in res:
    if r[5]=='OK' and not r[6]: ok+=1
    else: print(r[0],r[1],r[2],r[3],r[4][:30],r[5]); [print('     ',n) for n in r[6]]
print('pairs',len(res),'clean',ok)
