import ast,os,re
root='/repo/spsdk'
def isconst(e): 
    try: ast.literal_eval(e); return True
    except Exception: return False
for dp,dn,fn in os.walk(root):
    for f in fn:
        if not f.endswith('.py'): continue
        p=os.path.join(dp,f); t=ast.parse(open(p).read()); rel=os.path.relpath(p,root)
        for n in ast.walk(t):
            if isinstance(n,ast.BinOp) and isinstance(n.op,(ast.LShift,ast.RShift)) and isinstance(n.right,ast.BinOp) and isinstance(n.right.op,(ast.Add,ast.Sub)) and not (isconst(n.right.left) and isconst(n.right.right)):
                s=ast.unparse(n)
                if re.search(r'(self|cls)\.[a-z_]+\)?$',s) or True:
                    print('SHIFT-ARITH',rel,n.lineno,s[:100])
            if isinstance(n,ast.BoolOp) and isinstance(n.op,ast.And):
                for v in n.values:
                    if isinstance(v,ast.Attribute) and re.fullmatch(r'[A-Z][A-Z0-9_]+',v.attr) and ('FLAG' in v.attr or 'MASK' in v.attr or 'BIT' in v.attr):
                        print('AND-CONST',rel,n.lineno,ast.unparse(n)[:120])
            if isinstance(n,ast.Subscript) and isinstance(n.slice,ast.Slice):
                for b in (n.slice.lower,n.slice.upper):
                    if isinstance(b,ast.UnaryOp) and isinstance(b.op,ast.USub) and isinstance(b.operand,ast.Call) and 'offset' in ast.unparse(b.operand.func):
                        print('NEG-OFFSET',rel,n.lineno,ast.unparse(n)[:120])
