import ast,os
root='/repo/spsdk'
enums={}
allcls={}
for dp,dn,fn in os.walk(root):
    for f in fn:
        if not f.endswith('.py'): continue
        p=os.path.join(dp,f); t=ast.parse(open(p).read())
        for n in ast.walk(t):
            if isinstance(n,ast.ClassDef):
                allcls[n.name]=(os.path.relpath(p,root),n)
def is_enum(name,seen=()):
    if name in('SpsdkEnum','SpsdkSoftEnum'): return True
    if name not in allcls or name in seen: return False
    for b in allcls[name][1].bases:
        bn=b.id if isinstance(b,ast.Name) else (b.attr if isinstance(b,ast.Attribute) else None)
        if bn and is_enum(bn,seen+(name,)): return True
    return False
cnt=0
for name,(p,c) in allcls.items():
    if not is_enum(name) or name in('SpsdkEnum','SpsdkSoftEnum'): continue
    cnt+=1
    tags={};labels={}
    for n in c.body:
        if isinstance(n,ast.Assign) and isinstance(n.value,ast.Tuple) and len(n.value.elts)>=2:
            try:
                tag=ast.literal_eval(n.value.elts[0]); lab=ast.literal_eval(n.value.elts[1])
            except Exception: continue
            mem=n.targets[0].id
            if tag in tags: print('DUPTAG',p,name,tag,tags[tag],mem)
            tags[tag]=mem
            if str(lab).upper() in labels: print('DUPLABEL',p,name,lab,labels[str(lab).upper()],mem)
            labels[str(lab).upper()]=mem
print(cnt,'enums')
