import ast,os
root='/repo/spsdk'
RNG={'random_bytes','random_hex','rand_below','token_bytes','token_hex','randbelow','urandom','getrandbits','SBV2xAdvancedParams','uuid4','_create_nonce'}
def callee(c):
    f=c.func
    if isinstance(f,ast.Name): return f.id
    if isinstance(f,ast.Attribute): return f.attr
    return None
for dp,dn,fn in os.walk(root):
    for f in fn:
        if not f.endswith('.py'): continue
        p=os.path.join(dp,f); t=ast.parse(open(p).read())
        # import-time contexts: module body (not in def), class body (not in def), defaults, decorators
        def scan(node,ctx,intime):
            for ch in ast.iter_child_nodes(node):
                if isinstance(ch,(ast.FunctionDef,ast.AsyncFunctionDef,ast.Lambda)):
                    # defaults & decorators are import-time if enclosing is
                    a=ch.args
                    for d in list(a.defaults)+[x for x in a.kw_defaults if x is not None]:
                        for c in ast.walk(d):
                            if isinstance(c,ast.Call) and callee(c) in RNG:
                                print('DEFAULT',os.path.relpath(p,root),c.lineno,ctx+'.'+getattr(ch,'name','<lambda>'),ast.unparse(c), 'importtime' if intime else 'deferred')
                    if not isinstance(ch,ast.Lambda):
                        for d in ch.decorator_list:
                            for c in ast.walk(d):
                                if isinstance(c,ast.Call) and callee(c) in RNG: print('DECOR',p,c.lineno)
                        scan(ch,ctx+'.'+ch.name,False)
                    else:
                        scan(ch,ctx+'.<lambda>',False)
                elif isinstance(ch,ast.ClassDef):
                    scan(ch,ctx+'.'+ch.name,intime)
                else:
                    if isinstance(ch,ast.Call) and callee(ch) in RNG and intime:
                        print('IMPORT-TIME',os.path.relpath(p,root),ch.lineno,ctx,ast.unparse(ch))
                    scan(ch,ctx,intime)
        scan(t,'',True)
