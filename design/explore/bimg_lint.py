import yaml,glob,os
SIZE={'keyblob':256,'fcb':512,'fcb_xspi':768,'image_version':4,'image_version_ap':4,'keystore':2048,'bee_header_0':512,'bee_header_1':512,'xmcd':512}
defaults=yaml.safe_load(open('/repo/spsdk/data/common/database_defaults.yaml'))
names=set(); probs=0; n=0
for f in sorted(glob.glob('/repo/spsdk/data/devices/*/database.yaml')):
    d=yaml.safe_load(open(f)); dev=f.split('/')[-2]
    feats=d.get('features') or {}
    b=feats.get('bootable_image')
    if not b: continue
    for mt,md in (b.get('mem_types') or {}).items():
        segs=md.get('segments') or {}
        n+=1
        items=list(segs.items())
        names|=set(segs)
        prev=None
        for i,(nm,off) in enumerate(items):
            if off<0: continue
            nxt=[o for _,o in items[i+1:] if o>=0]
            if nxt and nxt[0]<=off: print('ORDER',dev,mt,items); probs+=1
            if nm in SIZE and nxt and off+SIZE[nm]>nxt[0]: print('OVERLAP',dev,mt,nm,hex(off),SIZE[nm],hex(nxt[0])); probs+=1
print(n,'memtype tables',probs,'problems'); print(sorted(names))
