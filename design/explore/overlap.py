import json,glob,os,yaml,collections
def toint(v):
    if isinstance(v,int): return v
    return int(str(v).replace('_',''),0)
base='/repo/spsdk/data/devices'
files=set()
def collect(d,path=()):
    if isinstance(d,dict):
        for k,v in d.items():
            if k=='reg_spec' and isinstance(v,str): files.add((path,v))
            else: collect(v,path+(k,))
    elif isinstance(d,list):
        for x in d: collect(x,path)
res=collections.Counter()
for f in sorted(glob.glob(base+'/*/database.yaml')):
    dev=f.split('/')[-2]; d=yaml.safe_load(open(f)); files.clear(); collect(d)
    for path,fn in sorted(files):
        p=os.path.join(base,dev,fn)
        if not os.path.exists(p):
            al=d.get('alias'); 
            p2=os.path.join(base,al,fn) if al else None
            if p2 and os.path.exists(p2): p=p2
            else:
                p3=os.path.join('/repo/spsdk/data/common',*[x for x in path if x in('xmcd','fcb','memcfg')],fn)
                res['missing']+=1; print('MISSING',dev,path,fn); continue
        if not p.endswith('.json'): res['nonjson']+=1; continue
        spec=json.load(open(p)); regs=[]
        for g in spec.get('groups',[]):
            for r in g.get('registers',[]):
                regs.append((toint(r.get('offset_int',0)),toint(r.get('reg_width',32))//8,r.get('name')))
        feat=[x for x in path if x not in('revisions','features')]
        regs.sort()
        ov=0
        for (o1,w1,n1),(o2,w2,n2) in zip(regs,regs[1:]):
            if o1+w1>o2 and not (o1==o2 and w1==w2): ov+=1
        key=feat[1] if feat and feat[0] in d.get('revisions',{}) else (feat[0] if feat else '?')
        res['files']+=1
        if ov: res['overlap:'+str(feat[-3:])]+=1; print('OVERLAP',dev,feat,fn,ov,'of',len(regs))
print(res)
