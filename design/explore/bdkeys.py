import ast,re
src=open('/repo/spsdk/sbfile/sb2/sly_bd_parser.py').read(); t=ast.parse(src)
cls=[n for n in t.body if isinstance(n,ast.ClassDef) and n.name=='BDParser'][0]
rules=[]  # (nonterminal, [productions], funcdef)
for f in cls.body:
    if isinstance(f,ast.FunctionDef) and f.decorator_list:
        d=f.decorator_list[0]
        if isinstance(d,ast.Call) and isinstance(d.func,ast.Name) and d.func.id=='_':
            prods=[a.value for a in d.args if isinstance(a,ast.Constant)]
            rules.append((f.name,prods,f))
RES={'CALL':'call','JUMP':'jump','ERASE':'erase','ENABLE':'enable','KEYSTORE_TO_NV':'keystore_to_nv','KEYSTORE_FROM_NV':'keystore_from_nv','VERSION_CHECK':'version_check'}
nts=set(r[0] for r in rules)
keys={nt:set() for nt in nts}   # keys of dict returned by nt
def tokref(e):
    # token.X or token[i]
    if isinstance(e,ast.Attribute) and isinstance(e.value,ast.Name) and e.value.id=='token': return e.attr
    return None
def dictkeys_of_expr(e,env,prods):
    """return set of keys (strings) or {'*'+nt} references"""
    if isinstance(e,ast.Dict):
        ks=set()
        for k in e.keys:
            if isinstance(k,ast.Constant): ks.add(k.value)
            elif tokref(k): ks.add('<'+tokref(k)+'>')
        return ks
    if isinstance(e,ast.Name) and e.id in env: return set(env[e.id])
    r=tokref(e)
    if r:
        base=re.sub(r'\d+$','',r)
        if base in nts: return {'@'+base}
    if isinstance(e,ast.Subscript) and isinstance(e.value,ast.Name) and e.value.id=='token':
        # token[i] -> symbol i of production(s)
        out=set()
        if isinstance(e.slice,ast.Constant):
            for p in prods:
                syms=p.split()
                if e.slice.value<len(syms) and syms[e.slice.value] in nts: out.add('@'+syms[e.slice.value])
        return out
    return set()
ruleinfo=[]
for nt,prods,f in rules:
    env={}  # var -> keyset ; nested: var[key] -> keyset stored as env[(var,key)]
    nested={}
    ret=set()
    for st in ast.walk(f):
        if isinstance(st,(ast.Assign,ast.AnnAssign)):
            tg=st.targets[0] if isinstance(st,ast.Assign) else st.target
            val=st.value
            if isinstance(tg,ast.Name) and val is not None:
                env[tg.id]=dictkeys_of_expr(val,env,prods)
                if isinstance(val,ast.Dict):
                    for k,v in zip(val.keys,val.values):
                        kk=k.value if isinstance(k,ast.Constant) else ('<'+tokref(k)+'>' if tokref(k) else None)
                        if kk is not None: nested[(tg.id,kk)]=dictkeys_of_expr(v,env,prods)
            if isinstance(tg,ast.Subscript) and isinstance(tg.value,ast.Subscript) and isinstance(tg.value.value,ast.Name):
                # d[cmd][key]=...
                var=tg.value.value.id; k1=tg.value.slice; k2=tg.slice
                kk=k1.value if isinstance(k1,ast.Constant) else ('<'+tokref(k1)+'>' if tokref(k1) else None)
                if isinstance(k2,ast.Constant): nested.setdefault((var,kk),set()).add(k2.value)
            elif isinstance(tg,ast.Subscript) and isinstance(tg.value,ast.Name) and isinstance(tg.slice,ast.Constant):
                env.setdefault(tg.value.id,set()).add(tg.slice.value)
        if isinstance(st,ast.Expr) and isinstance(st.value,ast.Call) and isinstance(st.value.func,ast.Attribute) and st.value.func.attr=='update':
            recv=st.value.func.value; arg=st.value.args[0]
            add=dictkeys_of_expr(arg,env,prods)
            if isinstance(arg,ast.Call) and isinstance(arg.func,ast.Attribute) and arg.func.attr=='get':  # token.load_stmt.get('load')
                r=tokref(arg.func.value); 
                if r: add={'@'+re.sub(r'\d+$','',r)+'.'+arg.args[0].value}
            if isinstance(recv,ast.Name): env.setdefault(recv.id,set()).update(add)
            elif isinstance(recv,ast.Subscript) and isinstance(recv.value,ast.Name):
                k1=recv.slice; kk=k1.value if isinstance(k1,ast.Constant) else ('<'+tokref(k1)+'>' if tokref(k1) else None)
                nested.setdefault((recv.value.id,kk),set()).update(add)
    for st in ast.walk(f):
        if isinstance(st,ast.Return) and st.value is not None:
            ks=dictkeys_of_expr(st.value,env,prods)
            ret|=ks
            if isinstance(st.value,ast.Name):
                for (v,k),s in nested.items():
                    if v==st.value.id: ruleinfo.append((nt,prods,k,s))
            if isinstance(st.value,ast.Dict):
                for k,v in zip(st.value.keys,st.value.values):
                    if isinstance(k,ast.Constant) and isinstance(v,ast.Dict):
                        ruleinfo.append((nt,prods,k.value,dictkeys_of_expr(v,env,prods)))
    keys[nt]|=ret
# resolve @nt refs
def resolve(s,depth=0):
    out=set()
    for k in s:
        if isinstance(k,str) and k.startswith('@'):
            ref=k[1:]
            if '.' in ref:
                nt_,sub=ref.split('.'); 
                for (n,p,kk,ss) in ruleinfo:
                    if n==nt_ and kk==sub and depth<5: out|=resolve(ss,depth+1)
            elif depth<6: out|=resolve(keys.get(ref,set()),depth+1)
        else: out.add(k)
    return out
cmds={}
for nt,prods,k,s in ruleinfo:
    names=[k]
    if isinstance(k,str) and k.startswith('<'):
        tok=k[1:-1]
        if tok in RES: names=[RES[tok]]
        elif tok=='call_type': names=['call','jump']
    for nm in names:
        cmds.setdefault(nm,set()).update(resolve(s))
for c,s in sorted(cmds.items(),key=lambda x:str(x[0])): print('PRODUCED',c,sorted(map(str,s)))
# handlers
h=ast.parse(open('/repo/spsdk/sbfile/sb2/sb_21_helper.py').read())
hc=[n for n in h.body if isinstance(n,ast.ClassDef)][0]
fm={f.name:f for f in hc.body if isinstance(f,ast.FunctionDef)}
cmdmap={}
for n in ast.walk(fm['__init__']):
    if isinstance(n,ast.Dict):
        for k,v in zip(n.keys,n.values):
            if isinstance(k,ast.Constant) and isinstance(v,ast.Attribute): cmdmap[k.value]=v.attr
def consumed(fn,seen=()):
    ks=set()
    for n in ast.walk(fm[fn]):
        if isinstance(n,ast.Subscript) and isinstance(n.value,ast.Name) and n.value.id=='cmd_args' and isinstance(n.slice,ast.Constant): ks.add(n.slice.value)
        if isinstance(n,ast.Call) and isinstance(n.func,ast.Attribute) and n.func.attr=='get' and isinstance(n.func.value,ast.Name) and n.func.value.id=='cmd_args': ks.add(n.args[0].value)
        if isinstance(n,ast.Call) and isinstance(n.func,ast.Attribute) and isinstance(n.func.value,ast.Name) and n.func.value.id=='self' and n.func.attr in fm and n.func.attr not in seen and any(isinstance(a,ast.Name) and a.id=='cmd_args' for a in n.args):
            ks|=consumed(n.func.attr,seen+(fn,))
    return ks
for c in sorted(cmds,key=str):
    if c not in cmdmap: print('NO-HANDLER',c); continue
    cons=consumed(cmdmap[c])
    print('CMD',c,'dropped:',sorted(map(str,cmds[c]-cons)),'| consumed-not-produced:',sorted(cons-cmds[c]))
