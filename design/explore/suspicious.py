import ast,os
root='/repo/spsdk'
for dp,dn,fn in os.walk(root):
    for f in fn:
        if not f.endswith('.py'): continue
        p=os.path.join(dp,f); src=open(p).read(); t=ast.parse(src)
        rel=os.path.relpath(p,root)
        for n in ast.walk(t):
            # chained compare with opposite directions a > x > b or a < x > b etc
            if isinstance(n,ast.Compare) and len(n.ops)>=2:
                kinds=[type(o).__name__ for o in n.ops]
                if any(k in('Gt','GtE') for k in kinds):
                    print('CHAIN',rel,n.lineno,ast.unparse(n))
            # guard: X != c and Y != c -> raise
            if isinstance(n,ast.If) and isinstance(n.test,ast.BoolOp) and isinstance(n.test.op,ast.And):
                if all(isinstance(v,ast.Compare) and len(v.ops)==1 and isinstance(v.ops[0],ast.NotEq) for v in n.test.values) and any(isinstance(s,ast.Raise) for s in n.body):
                    print('AND-NE-RAISE',rel,n.lineno,ast.unparse(n.test)[:100])
            # compare x > 1 << w
            if isinstance(n,ast.Compare) and len(n.ops)==1 and isinstance(n.ops[0],ast.Gt) and isinstance(n.comparators[0],ast.BinOp) and isinstance(n.comparators[0].op,ast.LShift):
                print('GT-SHIFT',rel,n.lineno,ast.unparse(n))
