import ast
src=open('/repo/spsdk/mboot/mcuboot.py').read(); t=ast.parse(src)
cls=[n for n in t.body if isinstance(n,ast.ClassDef) and n.name=='McuBoot'][0]
for f in cls.body:
    if not isinstance(f,ast.FunctionDef): continue
    has=[c for c in ast.walk(f) if isinstance(c,ast.Call) and isinstance(c.func,ast.Attribute) and c.func.attr=='_process_cmd']
    if not has: continue
    ok=False
    for n in ast.walk(f):
        if isinstance(n,ast.Compare):
            s=ast.unparse(n)
            if '.status' in s and 'StatusCode.SUCCESS' in s: ok=True
    if not ok: print('NO-STATUS-COMPARE',f.name)
